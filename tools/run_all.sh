#!/bin/bash
# usage: tools/run_all.sh <tier> <seed> [ids...]   — runs checks one after the other, prints verdict line and wall time
tier=$1; seed=$2; shift 2
ids=${@:-C01 C02 C03 C04 C05 C06 C07 C08 C09 C10 C11 C12 C13 C14 C15 C16 C17 C18 C19 C20}
cd "$(dirname "$0")/.."
for p in $ids; do
  t0=$(date +%s)
  out=$(VERIF_SEED=$seed VERIF_EVIDENCE_DIR=${EVDIR:-} ./check $p $tier 2>&1)
  rc=$?
  t1=$(date +%s)
  echo "$p tier=$tier seed=$seed rc=$rc wall=$((t1-t0))s $(echo "$out" | grep -E '^OK|^INCONCLUSIVE|^VIOLATION' | head -2 | cut -c1-160 | tr '\n' ' ')"
  if [ $rc -ne 0 ]; then echo "$out" | grep -E "monitor/operation|detail" | head -6 | cut -c1-300; fi
done
