#!/usr/bin/env python3
"""Generates the handcrafted mutants (realistic breaking edits) as patches against the current /repo/include."""
import difflib
import os
import sys

INC = "/repo/include/amc"
OUT = os.path.join(os.path.dirname(os.path.dirname(os.path.abspath(__file__))), "mutants")

M = []


def mut(name, expect, fname, old, new, why):
    M.append((name, expect, fname, old, new, why))


mut("m01_growth_plus_one", "C18", "smallvector.hpp",
    "std::min(std::max(static_cast<uintmax_t>((3U * static_cast<uintmax_t>(oldCapa) + 1U) / 2U), newSize),",
    "std::min(std::max(static_cast<uintmax_t>(static_cast<uintmax_t>(oldCapa) + 1U), newSize),",
    "growth by one element instead of a factor 1.5")
mut("m02_flatset_find_linear", "C19", "flatset.hpp",
    "  const_iterator lower_bound(const_reference v) const { return std::lower_bound(begin(), end(), v, compRef()); }",
    "  const_iterator lower_bound(const_reference v) const {\n    const_iterator it = begin();\n    while (it != end() && compRef()(*it, v)) ++it;\n    return it;\n  }",
    "linear scan instead of a binary search")
mut("m03_incrsize_forgets_full_marker", "C05 C01 C07", "vectorcommon.hpp",
    "      if (++_capa == _size) {\n        _size = kMaxSize;\n      }",
    "      ++_capa;",
    "incrSize no longer encodes 'exactly full'")
mut("m04_erase_at_tr_skips_destroy", "C02", "vectorcommon.hpp",
    "inline void erase_at(T *first, SizeType count) {\n  amc::destroy_at(first);\n  (void)amc::uninitialized_relocate_n(first + 1, count, first);",
    "inline void erase_at(T *first, SizeType count) {\n  (void)amc::uninitialized_relocate_n(first + 1, count, first);",
    "erase(pos) of a trivially relocatable element forgets to destroy it")
mut("m05_everything_is_relocatable", "C02", "type_traits.hpp",
    "struct is_trivially_relocatable_impl : public std::is_trivially_copyable<T> {};",
    "struct is_trivially_relocatable_impl : public std::true_type {};",
    "types without a declaration are treated as trivially relocatable")
mut("m06_free_with_size_not_capacity", "C06", "smallvector.hpp",
    "void SmallVectorBase<T, Alloc, SizeType>::freeStorage() noexcept {\n  this->deallocate(_storage.dyn(), _capa);",
    "void SmallVectorBase<T, Alloc, SizeType>::freeStorage() noexcept {\n  this->deallocate(_storage.dyn(), _size);",
    "deallocate is given the size instead of the capacity")
mut("m07_realloc_for_every_type", "C06 C02", "smallvector.hpp",
    "    : public std::integral_constant<bool, is_trivially_relocatable<typename Alloc::value_type>::value &&\n                                              has_reallocate<Alloc>::value> {};",
    "    : public std::integral_constant<bool, has_reallocate<Alloc>::value> {};",
    "allocator reallocate used whatever the element type")
mut("m08_reserve_ignores_small_requests", "C07 C18", "vectorcommon.hpp",
    "    if (this->capacity() < capacity) {\n      this->grow(capacity, true);  // Reserve with exact capacity",
    "    if (this->capacity() + 2U < capacity) {\n      this->grow(capacity, true);  // Reserve with exact capacity",
    "reserve(n) does nothing when n is only slightly above the capacity")
mut("m10_insert_n_no_rollback", "C09", "vectorcommon.hpp",
    "    try {\n      assign_after_shift(pos, std::forward<V>(v));\n    } catch (...) {\n      shift_left(pos + 1, n);\n      throw;\n    }",
    "    assign_after_shift(pos, std::forward<V>(v));",
    "single insert no longer undoes the shift when the copy throws")
mut("m11_fixed_emplace_no_check", "C08", "vectorcommon.hpp",
    "    assert(position >= this->cbegin() && position <= this->cbegin() + this->size());\n    GrowingPolicy::Check(this->size() + 1U, this->capacity());",
    "    assert(position >= this->cbegin() && position <= this->cbegin() + this->size());",
    "FixedCapacityVector::emplace forgets the capacity check")
mut("m12_insert_hint_wrong_bound", "C12 C03", "flatset.hpp",
    "        const_iterator insertIt = std::lower_bound(b, prevIt, v, compRef());\n        if (insertIt == prevIt || compRef()(v, *insertIt)) {",
    "        const_iterator insertIt = std::lower_bound(b, prevIt, v, compRef());\n        if (insertIt == prevIt || !compRef()(*insertIt, v)) {",
    "hinted insertion treats an equivalent element found before the hint as absent")
mut("m13_smallset_insert_stale_iterator", "C11 C04", "smallset.hpp",
    "      if (isSmallContFull()) {\n        grow();\n        return _set.insert(std::forward<V>(v));\n      }",
    "      if (isSmallContFull()) {\n        grow();\n        _set.insert(std::forward<V>(v));\n        return std::pair<iterator, bool>(insertIt, true);\n      }",
    "insert that grows the set returns the (now stale) iterator of the small container")
mut("m14_move_ctor_always_noexcept", "C17", "vectorcommon.hpp",
    "  Vector(Vector &&o) noexcept(N == 0 || vec::is_move_construct_nothrow<T>::value) : Base(N) {",
    "  Vector(Vector &&o) noexcept : Base(N) {",
    "move constructor declared unconditionally noexcept")
mut("m15_extra_member_in_smallvector", "C17", "vectorcommon.hpp",
    "  SizeType _capa, _size;\n  ElemWithPtrStorage<T> _storage;\n};",
    "  SizeType _capa, _size;\n  bool _spare = false;\n  ElemWithPtrStorage<T> _storage;\n};",
    "an extra data member in SmallVectorBase")
mut("m16_cxx14_only_duplicate_handling", "C16", "flatset.hpp",
    "    std::inplace_merge(mbegin(), insertIt, mend(), compRef());\n    eraseDuplicates();",
    "    std::inplace_merge(mbegin(), insertIt, mend(), compRef());\n#ifdef AMC_CXX17\n    eraseDuplicates();\n#else\n    if (size() > 1) eraseDuplicates();\n    if (size() > 8) _sortedVector.pop_back();\n#endif",
    "behaviour that differs below C++17 only")
mut("m17_flatset_mutable_lookup_cache", "C20", "flatset.hpp",
    "  const_iterator find(const_reference k) const {\n    const_iterator lbIt = lower_bound(k);\n    return lbIt == cend() || compRef()(k, *lbIt) ? cend() : lbIt;\n  }",
    "  const_iterator find(const_reference k) const {\n    const_iterator lbIt = lower_bound(k);\n    _lastFound = lbIt - cbegin();\n    return lbIt == cend() || compRef()(k, *lbIt) ? cend() : lbIt;\n  }\n  mutable difference_type _lastFound = 0;",
    "a mutable lookup cache written by find()")
mut("m19_at_off_by_one", "C08 C01", "vectorcommon.hpp",
    "  reference at(size_type idx) {\n    if (idx >= this->size()) throw std::out_of_range(\"Out of Range access\");",
    "  reference at(size_type idx) {\n    if (idx > this->size()) throw std::out_of_range(\"Out of Range access\");",
    "at() accepts idx == size()")
mut("m20_equal_range_empty_for_present_key", "C03", "flatset.hpp",
    "    const_iterator second = first != end() ? std::next(first) : end();",
    "    const_iterator second = first != end() && std::next(first) != end() ? std::next(first) : first;",
    "equal_range of the greatest element is empty")
mut("m21_smallset_contains_large_lower_bound", "C04", "smallset.hpp",
    "  bool contains(const_reference k) const { return isSmall() ? find_small(k) != _vec.end() : _set.count(k); }",
    "  bool contains(const_reference k) const { return isSmall() ? find_small(k) != _vec.end() : _set.lower_bound(k) != _set.end(); }",
    "contains() of a large set answers 'is there an element not less than k'")
mut("m22_relocate_keeps_sources_alive", "C15 C02", "memory.hpp",
    "  std::pair<InputIt, OutputIt> p = amc::uninitialized_move_n(first, count, dest);\n  amc::destroy_n(first, count);\n  return p;",
    "  std::pair<InputIt, OutputIt> p = amc::uninitialized_move_n(first, count, dest);\n  if (count > 1) amc::destroy_n(first, count - 1);\n  return p;",
    "relocation of n elements does not destroy the last source")
mut("m23_shrink_strict_less", "C18 C05", "vectorcommon.hpp",
    "      if (_size <= inplaceCapa) {\n        resetToSmall(inplaceCapa);",
    "      if (_size < inplaceCapa) {\n        resetToSmall(inplaceCapa);",
    "shrink_to_fit does not go back inline when exactly N elements remain")
mut("m24_push_back_alias_not_rebased", "C10", "vectorcommon.hpp",
    "    const_reference newV = this->adjustCapacity(static_cast<uintmax_t>(this->size()) + 1U, v);\n    amc::construct_at(end(), newV);",
    "    this->adjustCapacity(static_cast<uintmax_t>(this->size()) + 1U);\n    amc::construct_at(end(), v);",
    "push_back(v[i]) reads the argument after the reallocation")
mut("m25_swap2_deep_forgets_other_size", "C13", "vectorcommon.hpp",
    "      OSizeType oldSize = static_cast<OSizeType>(this->size());\n      this->setSize(static_cast<SizeType>(o.size()));\n      o.setSize(oldSize);\n    }\n  }",
    "      OSizeType oldSize = static_cast<OSizeType>(this->size());\n      this->setSize(static_cast<SizeType>(o.size()));\n      if (oldSize != 0) o.setSize(oldSize);\n    }\n  }",
    "swap2 (element-wise path) leaves the other size untouched when this was empty")
mut("m26_smallvector_always_claims_relocatable", "C14 C17", "vectorcommon.hpp",
    "  /// SmallVector is trivially relocatable if T is\n  using trivially_relocatable = typename is_trivially_relocatable<T>::type;",
    "  /// SmallVector is trivially relocatable if T is\n  using trivially_relocatable = std::true_type;",
    "SmallVector claims the trait whatever its element type")
mut("m27_fixed_caches_begin", "C14", "vectorcommon.hpp",
    "  iterator begin() noexcept { return _firstEl.ptr(); }\n  const_iterator begin() const noexcept { return _firstEl.ptr(); }\n  const_iterator cbegin() const noexcept { return begin(); }\n\n  SizeType size() const noexcept { return _size; }\n  SizeType capacity() const noexcept { return _capa; }\n\n protected:\n  explicit StaticVectorBase(SizeType inplaceCapa) noexcept : _capa(inplaceCapa), _size(0) {}\n\n  StaticVectorBase(SizeType inplaceCapa, const EmptyAlloc &) noexcept : _capa(inplaceCapa), _size(0) {}",
    "  iterator begin() noexcept { return _begin; }\n  const_iterator begin() const noexcept { return _begin; }\n  const_iterator cbegin() const noexcept { return begin(); }\n\n  SizeType size() const noexcept { return _size; }\n  SizeType capacity() const noexcept { return _capa; }\n\n protected:\n  explicit StaticVectorBase(SizeType inplaceCapa) noexcept : _capa(inplaceCapa), _size(0), _begin(_firstEl.ptr()) {}\n\n  StaticVectorBase(SizeType inplaceCapa, const EmptyAlloc &) noexcept : _capa(inplaceCapa), _size(0), _begin(_firstEl.ptr()) {}\n  T *_begin;",
    "FixedCapacityVector caches begin() in a member (self pointer)")
mut("m28_insert_alias_not_followed", "C10 C01", "vectorcommon.hpp",
    "    if (pV >= pos && pV < cend()) {\n      ++pV;  // 'v' is one of our elements that is about to be shifted one slot to the right\n    }",
    "",
    "insert(pos, v[i]) no longer follows the shifted element")
mut("m29_smallset_erase_key_keeps_large", "C11 C04", "smallset.hpp",
    "    iterator ret(_set.erase(pos.toSetIt()));\n    // If the last element of the set has been erased we are small again: return our end()\n    return isSmall() ? end() : ret;\n  }\n\n  template <class I = const_iterator>\n  iterator erase(const_iterator first,",
    "    iterator ret(_set.erase(pos.toSetIt()));\n    return ret;\n  }\n\n  template <class I = const_iterator>\n  iterator erase(const_iterator first,",
    "erase(position) of the last element of a large std::set-backed SmallSet returns the set's end()")
mut("m30_move_assign_small_into_full", "C05", "vectorcommon.hpp",
    "      SizeType newSize = amc::exchange(o._capa, 0);\n      o._size = inplaceCapa;\n      setSize(newSize);",
    "      SizeType newSize = amc::exchange(o._capa, 0);\n      o._size = inplaceCapa;\n      msize() = newSize;",
    "move assignment writes the size directly, bypassing the 'exactly full' encoding")


def main():
    os.makedirs(OUT, exist_ok=True)
    bad = 0
    for name, expect, fname, old, new, why in M:
        path = os.path.join(INC, fname)
        src = open(path).read()
        if src.count(old) != 1:
            print("SKIP %s: pattern found %d times in %s" % (name, src.count(old), fname))
            bad += 1
            continue
        dst = src.replace(old, new)
        diff = "".join(difflib.unified_diff(src.splitlines(True), dst.splitlines(True), "a/include/amc/" + fname, "b/include/amc/" + fname))
        with open(os.path.join(OUT, name + ".patch"), "w") as f:
            f.write("# expect: %s\n# %s\n%s" % (expect, why, diff))
    print("%d mutants written, %d skipped" % (len(M) - bad, bad))


if __name__ == "__main__":
    main()
