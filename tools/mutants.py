#!/usr/bin/env python3
"""Applies each patch of /verif/mutants (or /verif/seeded/*/patch.diff) to a scratch copy of /repo/include under /tmp, points the
checks at it (AMC_VERIF_REPO) and records which properties fire.  The scratch copy and the binaries built for it are removed
right afterwards.   usage: tools/mutants.py [--all-checks] [--tier quick] [name-substring ...]"""
import json
import os
import re
import shutil
import subprocess
import sys
import time

VERIF = os.path.dirname(os.path.dirname(os.path.abspath(__file__)))
BIN = os.path.join(VERIF, "build", "bin")
ALL = ["C%02d" % i for i in range(1, 21)]


def expected_of(patch_path):
    with open(patch_path) as f:
        head = f.read(600)
    m = re.search(r"^# expect: (.*)$", head, re.M)
    return m.group(1).split() if m else []


def run_mutant(name, patch_path, checks, tier):
    scratch = "/tmp/mut-%d" % os.getpid()
    shutil.rmtree(scratch, ignore_errors=True)
    os.makedirs(scratch)
    shutil.copytree("/repo/include", os.path.join(scratch, "include"))
    p = subprocess.run(["patch", "-p1", "-s", "-d", scratch, "-i", patch_path], stdout=subprocess.PIPE, stderr=subprocess.STDOUT, text=True)
    res = {"mutant": name, "applied": p.returncode == 0, "fired": {}, "silent": [], "inconclusive": []}
    if p.returncode != 0:
        res["apply_error"] = p.stdout[-400:]
        shutil.rmtree(scratch, ignore_errors=True)
        return res
    before = set(os.listdir(BIN)) if os.path.isdir(BIN) else set()
    env = dict(os.environ)
    env["AMC_VERIF_REPO"] = scratch
    env["VERIF_EVIDENCE_DIR"] = os.path.join(scratch, "evidence")
    for c in checks:
        t0 = time.time()
        q = subprocess.run([os.path.join(VERIF, "check"), c, tier], stdout=subprocess.PIPE, stderr=subprocess.STDOUT, text=True, env=env, cwd=VERIF)
        keys = re.findall(r"monitor/operation: (.*)", q.stdout)
        if q.returncode == 1:
            res["fired"][c] = {"n": len(keys), "first": keys[:3], "secs": round(time.time() - t0)}
        elif q.returncode == 0:
            res["silent"].append(c)
        else:
            res["inconclusive"].append({"check": c, "tail": q.stdout[-300:]})
    after = set(os.listdir(BIN)) if os.path.isdir(BIN) else set()
    for f in after - before:
        try:
            os.remove(os.path.join(BIN, f))
        except OSError:
            pass
    shutil.rmtree(scratch, ignore_errors=True)
    return res


def main():
    args = sys.argv[1:]
    allchecks = "--all-checks" in args
    tier = "quick"
    if "--tier" in args:
        tier = args[args.index("--tier") + 1]
    subs = [a for a in args if not a.startswith("--") and a not in ("quick", "thorough")]
    patches = []
    mdir = os.path.join(VERIF, "mutants")
    for f in sorted(os.listdir(mdir)):
        if f.endswith(".patch"):
            patches.append((f[:-6], os.path.join(mdir, f)))
    sdir = os.path.join(VERIF, "seeded")
    if os.path.isdir(sdir):
        for d in sorted(os.listdir(sdir)):
            pp = os.path.join(sdir, d, "patch.diff")
            if os.path.exists(pp):
                patches.append(("seeded_" + d, pp))
    if subs:
        patches = [p for p in patches if any(s in p[0] for s in subs)]
    out_path = os.path.join(mdir, "RESULTS.json")
    results = {}
    if os.path.exists(out_path):
        with open(out_path) as f:
            results = json.load(f)
    for name, path in patches:
        if name.startswith("seeded_"):
            meta = os.path.join(os.path.dirname(path), "meta.json")
            if os.path.exists(meta):
                with open(meta) as f:
                    if json.load(f).get("neutralised_by"):
                        print("%-70s skipped (neutralised by a later fix, see meta.json)" % name[:70], flush=True)
                        continue
        exp = expected_of(path)
        if not exp and name.startswith("seeded_"):
            meta = os.path.join(os.path.dirname(path), "meta.json")
            if os.path.exists(meta):
                with open(meta) as f:
                    exp = [json.load(f)["breaks_property"]]
        related = [c for c in ("C01",) if c not in exp] if name.startswith("seeded_") else []
        if name.startswith("seeded_"):
            meta = os.path.join(os.path.dirname(path), "meta.json")
            if os.path.exists(meta):
                with open(meta) as f:
                    related += [c for c in json.load(f).get("also_run", []) if c not in exp and c not in related]
        checks = ALL if allchecks or not exp else exp + related
        r = run_mutant(name, path, checks, tier)
        r["expected"] = exp
        r["missed_expected"] = [c for c in exp if c in r["silent"]]
        results[name] = r
        print("%-70s fired=%s silent=%s%s" % (name[:70], ",".join(sorted(r["fired"])), ",".join(r["silent"]), "" if r["applied"] else " (PATCH DID NOT APPLY)"), flush=True)
        with open(out_path, "w") as f:
            json.dump(results, f, indent=1, sort_keys=True)


if __name__ == "__main__":
    main()
