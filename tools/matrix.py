#!/usr/bin/env python3
"""Prints the detection matrix (markdown) from mutants/RESULTS.json."""
import json
import os
import re

V = os.path.dirname(os.path.dirname(os.path.abspath(__file__)))
r = json.load(open(os.path.join(V, "mutants", "RESULTS.json")))


def why(name):
    for p in (os.path.join(V, "mutants", name + ".patch"),):
        if os.path.exists(p):
            lines = open(p).read().split("\n")
            if len(lines) > 1 and lines[1].startswith("# "):
                return lines[1][2:]
    if name.startswith("seeded_"):
        m = os.path.join(V, "seeded", name[7:], "meta.json")
        if os.path.exists(m):
            return json.load(open(m))["needs_to_manifest"]
    return ""


def row(name, x):
    fired = ", ".join("%s" % c for c in sorted(x["fired"]))
    first = ""
    for c in sorted(x["fired"]):
        f = x["fired"][c].get("first") or []
        if f:
            first = f[0].split("|")[0]
            break
    missed = ", ".join(x.get("missed_expected", []))
    return "| %s | %s | %s | %s | %s |" % (name.replace("seeded_", ""), why(name)[:150].replace("|", "/"), fired or "-", first[:40], missed or "")


import sys
lines = []
for title, pred in (("Changes seeded by independent sub-agents (run against each: the check of the targeted property, C01 and the checks named under also_run in its meta.json; all 20 checks for s01 - s03)", lambda n: n.startswith("seeded_")),
                    ("Reverse patches of the repairs (checks named in the patch header)", lambda n: n.startswith("revert_")),
                    ("Handcrafted mutants (checks named in the patch header)", lambda n: n.startswith("m"))):
    lines.append("\n**%s**\n" % title)
    lines.append("| change | what it is / what it needs | checks that fire | first monitor | expected but silent |")
    lines.append("|---|---|---|---|---|")
    for name in sorted(r):
        if pred(name) and r[name].get("applied"):
            lines.append(row(name, r[name]))

out = "\n".join(lines) + "\n"
if "--write" in sys.argv:
    d = os.path.join(V, "DESIGN.md")
    t = open(d).read()
    a, b = t.index("<!-- MATRIX BEGIN -->") + len("<!-- MATRIX BEGIN -->"), t.index("<!-- MATRIX END -->")
    open(d, "w").write(t[:a] + "\n" + out + t[b:])
else:
    print(out)
