#!/bin/bash
# usage: tools/try_seed.sh <seed-dir-substring> <check id> [tier]   - runs one check against one seeded change on a scratch copy of /repo/include
d=$(ls -d /verif/seeded/*$1* | head -1)
s=/tmp/try-$$
rm -rf $s; mkdir -p $s; cp -r /repo/include $s/
patch -p1 -s -d $s -i $d/patch.diff || { echo "patch does not apply"; rm -rf $s; exit 2; }
AMC_VERIF_REPO=$s VERIF_EVIDENCE_DIR=$s/ev /verif/check $2 ${3:-quick} 2>&1 | grep -v "^WARNING" | tail -${TAIL:-4} | cut -c1-400
rm -rf $s
