#!/usr/bin/env python3
"""Confirms a seeded change produced in a scratch worktree and stores it under /verif/seeded/<id>/.
usage: tools/confirm_seed.py <worktree> <seed-id> <property> "<needs>"  """
import json
import os
import shutil
import subprocess
import sys

wt, sid, prop, needs = sys.argv[1:5]
out = os.path.join(wt, "seed_out")
dst = os.path.join("/verif/seeded", sid)


def sh(cmd, **kw):
    return subprocess.run(cmd, shell=True, stdout=subprocess.PIPE, stderr=subprocess.STDOUT, text=True, **kw)


ran = []
# 1. the patch is exactly the worktree's diff
d = sh("git -C %s diff -- include" % wt).stdout
with open(os.path.join(out, "patch.diff")) as f:
    same = f.read().strip() == d.strip()
ran.append("git -C <wt> diff -- include == patch.diff: %s" % same)
# 2. the project's tests build and pass with the change
b = sh("cmake -S %s -B %s/_b -DCMAKE_BUILD_TYPE=RelWithDebInfo -DAMC_ENABLE_BENCHMARKS=OFF >/dev/null 2>&1; cmake --build %s/_b -j8 2>&1 | tail -2; ctest --test-dir %s/_b 2>&1 | grep 'tests passed'" % (wt, wt, wt, wt))
tests_ok = "100% tests passed" in b.stdout
ran.append("cmake --build <wt>/_b && ctest: %s" % b.stdout.strip().split("\n")[-1])
# 3. demo passes on the unchanged library and fails with the change
flags = os.environ.get("SEED_FLAGS") or "-std=c++17 -O1 -g -fsanitize=address,undefined -fno-sanitize-recover=all -DAMC_NONSTD_FEATURES"
r0 = sh("g++ %s -I/repo/include %s/demo.cpp -o %s/demo_orig && %s/demo_orig" % (flags, out, out, out))
r1 = sh("g++ %s -I%s/include %s/demo.cpp -o %s/demo_mut && %s/demo_mut" % (flags, wt, out, out, out))
ran.append("demo on /repo/include: exit %d" % r0.returncode)
ran.append("demo on changed include: exit %d; %s" % (r1.returncode, r1.stdout.strip().split("\n")[-1][:200] if r1.stdout.strip() else ""))
ok = same and tests_ok and r0.returncode == 0 and r1.returncode != 0
print("\n".join(ran))
print("CONFIRMED" if ok else "NOT CONFIRMED")
if ok:
    os.makedirs(dst, exist_ok=True)
    shutil.copy(os.path.join(out, "patch.diff"), os.path.join(dst, "patch.diff"))
    shutil.copy(os.path.join(out, "demo.cpp"), os.path.join(dst, "demo.cpp"))
    if os.path.exists(os.path.join(out, "notes.md")):
        shutil.copy(os.path.join(out, "notes.md"), os.path.join(dst, "notes.md"))
    with open(os.path.join(dst, "meta.json"), "w") as f:
        json.dump({"id": sid, "breaks_property": prop, "needs_to_manifest": needs, "origin": "written by an independent sub-agent given only the property text and a scratch worktree",
                   "confirmed_by": ran, "tests_pass_with_change": tests_ok, "demo_exit_unchanged": r0.returncode, "demo_exit_changed": r1.returncode,
                   "demo_output_changed_tail": r1.stdout[-600:]}, f, indent=1)
