// Allocator ledgers (DESIGN 2.2).  C++11 compatible.
#pragma once

#include <cstddef>
#include <cstdint>
#include <cstdlib>
#include <cstring>
#include <new>

#include "core.hpp"
#include "elem.hpp"

namespace vf {

enum Family { FAM_NONE = 0, FAM_BASIC = 1, FAM_EXACT = 2, FAM_REALLOC = 3, FAM_EXACT2 = 4 };
inline const char *famname(int f) {
  return f == FAM_BASIC ? "LedgerBasic" : f == FAM_EXACT ? "ExactAlloc" : f == FAM_REALLOC ? "ReallocAlloc" : f == FAM_EXACT2 ? "ExactAlloc2" : "?";
}

struct BlkRec {
  void *p;
  size_t bytes;
  uint8_t fam;
  uint8_t state;  // 0 empty, 1 live, 2 tombstone
};
static const size_t kBlkSlots = 1u << 15;
static BlkRec g_blk[kBlkSlots];
static long g_blk_live = 0, g_blk_peak = 0;
static uint64_t g_n_alloc = 0, g_n_dealloc = 0, g_n_realloc = 0;  // all allocator calls (requests)
static uint64_t g_alloc_requests = 0;                              // allocate + reallocate calls made by the library
static bool g_elem_relocatable = false;                            // set by the engine: does the element type declare TR / is it TC
static size_t g_blk_used_slots = 0;

// owner registry: data() -> size() of every pool member when the public call started (for nConstructed)
struct OwnerRec {
  const void *data;
  size_t size;
};
static OwnerRec g_owner[64];
static int g_n_owner = 0;
static bool g_owner_check = false;

inline size_t blk_hash(const void *p) { return (reinterpret_cast<uintptr_t>(p) >> 4) * 0x9E3779B1u & (kBlkSlots - 1); }
inline BlkRec *blk_find(const void *p) {
  size_t h = blk_hash(p);
  for (size_t i = 0; i < kBlkSlots; ++i) {
    BlkRec &r = g_blk[(h + i) & (kBlkSlots - 1)];
    if (r.state == 0) return nullptr;
    if (r.state == 1 && r.p == p) return &r;
  }
  return nullptr;
}
inline void blk_insert(void *p, size_t bytes, int fam) {
  size_t h = blk_hash(p);
  for (size_t i = 0; i < kBlkSlots; ++i) {
    BlkRec &r = g_blk[(h + i) & (kBlkSlots - 1)];
    if (r.state != 1) {
      if (r.state == 0) ++g_blk_used_slots;
      r.p = p;
      r.bytes = bytes;
      r.fam = static_cast<uint8_t>(fam);
      r.state = 1;
      ++g_blk_live;
      if (g_blk_live > g_blk_peak) g_blk_peak = g_blk_live;
      return;
    }
  }
  harness_fail("block table full");
}
inline void blk_reset() {
  if (g_blk_used_slots) memset(static_cast<void *>(g_blk), 0, sizeof g_blk);
  g_blk_used_slots = 0;
  g_blk_live = 0;
}

inline void *raw_get(size_t bytes) {
  MonScope m;
  void *p = malloc(bytes ? bytes : 1);
  if (!p) harness_fail("out of memory");
  memset(p, 0xA5, bytes ? bytes : 1);
  return p;
}
inline void raw_put(void *p, size_t bytes) {
  MonScope m;
  memset(p, 0xDD, bytes ? bytes : 1);
  free(p);
}

inline void *blk_alloc(size_t bytes, int fam) {
  ++g_n_alloc;
  if (g_monitor_depth == 0) ++g_alloc_requests;
  {
    long k = g_fault_points++;
    if (g_fault_at >= 0 && k == g_fault_at && g_monitor_depth == 0) {
      g_fault_at = -1;
      throw std::bad_alloc();
    }
  }
  void *p = raw_get(bytes);
  blk_insert(p, bytes, fam);
  return p;
}

inline void blk_free(void *p, size_t bytes, int fam) {
  ++g_n_dealloc;
  if (p == nullptr) {
    if (bytes != 0) violation("C06", "alloc.dealloc_null_nonzero", fmt("deallocate(nullptr, %zu bytes)", bytes));
    return;  // (nullptr, 0) is harmless and tolerated
  }
  BlkRec *r = blk_find(p);
  if (!r) {
    violation("C06", "alloc.dealloc_unknown", fmt("deallocate(%p, %zu bytes) of a block that is not outstanding (never obtained or already returned)", p, bytes));
    return;  // do not free: keeps the harness alive
  }
  if (r->bytes != bytes) {
    violation("C06", "alloc.dealloc_wrong_size", fmt("block obtained with %zu bytes returned with %zu bytes", r->bytes, bytes));
  }
  if (r->fam != fam) {
    violation("C06", "alloc.dealloc_wrong_allocator", fmt("block obtained from %s returned to %s", famname(r->fam), famname(fam)));
  }
  size_t real = r->bytes;
  r->state = 2;
  --g_blk_live;
  raw_put(p, real);
}

// realloc in the basic (byte) form: always moves, poisons the old block
inline void *blk_realloc_bytes(void *p, size_t oldBytes, size_t newBytes, int fam, size_t keepBytes, int relocatable = -1) {
  ++g_n_realloc;
  if (g_monitor_depth == 0) ++g_alloc_requests;
  if (relocatable == 0 || (relocatable < 0 && !g_elem_relocatable)) {
    violation("C06", "alloc.realloc_non_relocatable", "allocator reallocate() used for an element type that is not trivially relocatable");
  }
  {
    long k = g_fault_points++;
    if (g_fault_at >= 0 && k == g_fault_at && g_monitor_depth == 0) {
      g_fault_at = -1;
      throw std::bad_alloc();
    }
  }
  size_t have = 0;
  if (p != nullptr) {
    BlkRec *r = blk_find(p);
    if (!r) {
      violation("C06", "alloc.realloc_unknown", fmt("reallocate(%p) of a block that is not outstanding", p));
      void *q = raw_get(newBytes);
      blk_insert(q, newBytes, fam);
      return q;
    }
    if (r->bytes != oldBytes) {
      violation("C06", "alloc.realloc_wrong_old_size", fmt("reallocate given old size %zu bytes for a block of %zu bytes", oldBytes, r->bytes));
    }
    if (r->fam != fam) {
      violation("C06", "alloc.realloc_wrong_allocator", fmt("block of %s reallocated through %s", famname(r->fam), famname(fam)));
    }
    have = r->bytes;
  } else if (oldBytes != 0) {
    violation("C06", "alloc.realloc_null_nonzero", fmt("reallocate(nullptr, old=%zu bytes)", oldBytes));
  }
  void *q = raw_get(newBytes);
  size_t n = keepBytes;
  if (n > have) n = have;
  if (n > newBytes) n = newBytes;
  if (n) memcpy(q, p, n);
  if (p != nullptr) {
    BlkRec *r = blk_find(p);
    r->state = 2;
    --g_blk_live;
    raw_put(p, have);
  }
  blk_insert(q, newBytes, fam);
  return q;
}

// ---- the basic allocator plugged into amc::BasicAllocatorWrapper<T, LedgerBasic> (= amc::allocator with its
//      SimpleAllocator replaced, so the wrapper's own reallocate dispatch is under test)
struct LedgerBasic {
  void *allocate(size_t n) { return blk_alloc(n, FAM_BASIC); }
  void *reallocate(void *p, size_t oldSz, size_t newSz) {
    return blk_realloc_bytes(p, oldSz, newSz, FAM_BASIC, oldSz < newSz ? oldSz : newSz);
  }
  void deallocate(void *p, size_t n) { blk_free(p, n, FAM_BASIC); }
};

// ---- standard-conforming allocator without reallocate; FAM distinguishes allocator *types* (pools)
template <class T, int FAM = FAM_EXACT>
struct ExactAlloc {
  typedef T value_type;
  typedef T *pointer;
  typedef const T *const_pointer;
  typedef size_t size_type;
  typedef ptrdiff_t difference_type;
  template <class U>
  struct rebind {
    typedef ExactAlloc<U, FAM> other;
  };
  ExactAlloc() noexcept {}
  template <class U>
  ExactAlloc(const ExactAlloc<U, FAM> &) noexcept {}
  T *allocate(size_t n) { return static_cast<T *>(blk_alloc(n * sizeof(T), FAM)); }
  void deallocate(T *p, size_t n) { blk_free(p, n * sizeof(T), FAM); }
  template <class U>
  bool operator==(const ExactAlloc<U, FAM> &) const noexcept { return true; }
  template <class U>
  bool operator!=(const ExactAlloc<U, FAM> &) const noexcept { return false; }
};

// What the harness knows about the relocatability of T (independent of amc's trait): -1 = use the engine-wide flag (T is the element type),
// specialised by the nested-container configurations for container types used as elements.
template <class T>
struct HarnessReloc {
  static int get() { return -1; }
};

// ---- standard allocator that offers reallocate(p, oldCapa, newCapa, nConstructed)
template <class T>
struct ReallocAlloc {
  typedef T value_type;
  typedef T *pointer;
  typedef const T *const_pointer;
  typedef size_t size_type;
  typedef ptrdiff_t difference_type;
  template <class U>
  struct rebind {
    typedef ReallocAlloc<U> other;
  };
  ReallocAlloc() noexcept {}
  template <class U>
  ReallocAlloc(const ReallocAlloc<U> &) noexcept {}
  T *allocate(size_t n) { return static_cast<T *>(blk_alloc(n * sizeof(T), FAM_REALLOC)); }
  void deallocate(T *p, size_t n) { blk_free(p, n * sizeof(T), FAM_REALLOC); }
  T *reallocate(T *p, size_t oldCapa, size_t newCapa, size_t nConstructed) {
    if (g_owner_check && p != nullptr) {
      for (int i = 0; i < g_n_owner; ++i) {
        if (g_owner[i].data == p && g_owner[i].size != nConstructed) {
          violation("C06", "alloc.realloc_wrong_live_count",
                    fmt("reallocate told %zu live elements, the owning container holds %zu", nConstructed, g_owner[i].size));
        }
      }
    }
    if (nConstructed > oldCapa) {
      violation("C06", "alloc.realloc_live_gt_capacity", fmt("reallocate told %zu live elements in a block of %zu", nConstructed, oldCapa));
      nConstructed = oldCapa;
    }
    // transfers exactly nConstructed elements; the rest of the new block stays 0xA5
    return static_cast<T *>(blk_realloc_bytes(p, oldCapa * sizeof(T), newCapa * sizeof(T), FAM_REALLOC, nConstructed * sizeof(T), HarnessReloc<T>::get()));
  }
  template <class U>
  bool operator==(const ReallocAlloc<U> &) const noexcept { return true; }
  template <class U>
  bool operator!=(const ReallocAlloc<U> &) const noexcept { return false; }
};

}  // namespace vf
