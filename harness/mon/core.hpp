// Shared runtime-monitoring core: PRNG, monitor scopes, violation sink, crash-surviving ring log.
// Every harness binary is a single translation unit, so globals are defined here directly.
// C++11 compatible (used by the -std=c++11/14 engines too).
#pragma once

#include <fcntl.h>
#include <sys/mman.h>
#include <sys/stat.h>
#include <unistd.h>

#include <cstdarg>
#include <cstdint>
#include <cstdio>
#include <cstdlib>
#include <cstring>
#include <string>

namespace vf {

// ---------------------------------------------------------------- PRNG
// Coverage-guided mode (VF_FUZZ builds, libFuzzer): every random decision of the generators is read from the fuzzer's byte
// string instead of the PRNG, one byte per small decision, so that libFuzzer's mutations are mutations of the operation history.
static const uint8_t *g_fz_data = nullptr;
static size_t g_fz_size = 0, g_fz_pos = 0;
static bool g_fz_on = false, g_fz_exhausted = false;
inline uint64_t fz_take(int nbytes) {
  uint64_t v = 0;
  for (int i = 0; i < nbytes; ++i) {
    if (g_fz_pos >= g_fz_size) { g_fz_exhausted = true; return v; }
    v = (v << 8) | g_fz_data[g_fz_pos++];
  }
  return v;
}

struct Rng {
  uint64_t s;
  explicit Rng(uint64_t seed = 1) : s(seed * 0x9E3779B97F4A7C15ull + 0xD1B54A32D192ED03ull) { raw(); raw(); }
  uint64_t raw() {
    uint64_t z = (s += 0x9E3779B97F4A7C15ull);
    z = (z ^ (z >> 30)) * 0xBF58476D1CE4E5B9ull;
    z = (z ^ (z >> 27)) * 0x94D049BB133111EBull;
    return z ^ (z >> 31);
  }
  static uint64_t mix(uint64_t a, uint64_t b, uint64_t c) {
    uint64_t z = a * 0x9E3779B97F4A7C15ull ^ (b + 0xBF58476D1CE4E5B9ull) * 0x94D049BB133111EBull ^ (c << 32 | c >> 32);
    z ^= z >> 31; z *= 0xD6E8FEB86659FD93ull; z ^= z >> 29;
    return z;
  }
  uint64_t next() { return g_fz_on ? fz_take(4) : raw(); }
  // uniform in [0, n)   (n > 0)
  uint32_t below(uint32_t n) {
    if (n == 0) return 0;
    if (g_fz_on) return static_cast<uint32_t>(fz_take(n <= 256 ? 1 : n <= 65536 ? 2 : 4) % n);
    return static_cast<uint32_t>(raw() % n);
  }
  bool chance(uint32_t num, uint32_t den) { return below(den) < num; }
  int range(int lo, int hi) { return lo + static_cast<int>(below(static_cast<uint32_t>(hi - lo + 1))); }
};

// ---------------------------------------------------------------- scopes
// g_monitor_depth > 0 : harness / monitor code is running (its mallocs and element events are not the library's)
// g_in_call           : a public call of the library under test is in progress (the monitored window)
static int g_monitor_depth = 0;
static bool g_in_call = false;
struct MonScope {
  MonScope() { ++g_monitor_depth; }
  ~MonScope() { --g_monitor_depth; }
};

// ---------------------------------------------------------------- output sink
static int g_out_fd = 2;             // JSONL records
static char *g_ring = nullptr;       // mmap-ed ring log (survives abort)
static const size_t kRingSize = 8192;
static long g_cur_hist = -1, g_cur_op = -1;
static int g_violations = 0;         // violations recorded in this process
static bool g_cut = false;           // current history must be abandoned
static std::string g_cur_sig;        // signature (operation + operand state classes) of the call in progress
static std::string g_cur_desc;       // human readable description of the call in progress

inline std::string jesc(const std::string &s) {
  std::string o;
  for (size_t i = 0; i < s.size(); ++i) {
    unsigned char c = static_cast<unsigned char>(s[i]);
    if (c == '"' || c == '\\') { o += '\\'; o += static_cast<char>(c); }
    else if (c == '\n') o += "\\n";
    else if (c < 0x20) o += ' ';
    else o += static_cast<char>(c);
  }
  return o;
}

inline std::string fmt(const char *f, ...) {
  char buf[4096];
  va_list ap;
  va_start(ap, f);
  vsnprintf(buf, sizeof buf, f, ap);
  va_end(ap);
  return std::string(buf);
}

inline void out_line(const std::string &l) {
  std::string s = l + "\n";
  size_t off = 0;
  while (off < s.size()) {
    ssize_t w = ::write(g_out_fd, s.data() + off, s.size() - off);
    if (w <= 0) break;
    off += static_cast<size_t>(w);
  }
}

inline void open_out(const char *path) {
  MonScope m;
  g_out_fd = ::open(path, O_WRONLY | O_CREAT | O_APPEND, 0644);
  if (g_out_fd < 0) { perror("open out"); _exit(2); }
}

inline void open_ring(const char *path) {
  MonScope m;
  int fd = ::open(path, O_RDWR | O_CREAT | O_TRUNC, 0644);
  if (fd < 0) { perror("open ring"); _exit(2); }
  if (ftruncate(fd, kRingSize) != 0) { perror("ftruncate"); _exit(2); }
  void *p = mmap(nullptr, kRingSize, PROT_READ | PROT_WRITE, MAP_SHARED, fd, 0);
  if (p == MAP_FAILED) { perror("mmap"); _exit(2); }
  g_ring = static_cast<char *>(p);
  ::close(fd);
}

// written before every monitored call; no allocation, survives any kind of process death
inline void ring_note(const char *phase) {
  if (!g_ring) return;
  snprintf(g_ring, kRingSize, "{\"phase\":\"%s\",\"hist\":%ld,\"op\":%ld,\"sig\":\"%s\",\"desc\":\"%s\"}\n", phase, g_cur_hist,
           g_cur_op, jesc(g_cur_sig).c_str(), jesc(g_cur_desc).c_str());
}

// A monitor fired. prop: comma separated property ids this monitor belongs to. monitor: stable monitor id.
// The record is written at once (the process may die before the call returns).
inline void violation(const char *props, const char *monitor, const std::string &detail) {
  MonScope m;
  ++g_violations;
  g_cut = true;
  out_line(fmt("{\"t\":\"viol\",\"props\":\"%s\",\"mon\":\"%s\",\"sig\":\"%s\",\"hist\":%ld,\"op\":%ld,\"desc\":\"%s\",\"detail\":\"%s\"}",
               props, monitor, jesc(g_cur_sig).c_str(), g_cur_hist, g_cur_op, jesc(g_cur_desc).c_str(),
               jesc(detail).c_str()));
}

[[noreturn]] inline void harness_fail(const std::string &why) {
  MonScope m;
  out_line(fmt("{\"t\":\"harness_fail\",\"hist\":%ld,\"op\":%ld,\"why\":\"%s\"}", g_cur_hist, g_cur_op, jesc(why).c_str()));
  _exit(2);
}

// ---------------------------------------------------------------- storage of the objects under test
// malloc for ordinary types (the object ends where the block ends: an overflow of the inline storage meets the redzone). For containers of
// over-aligned elements (`vary`: element alignment beyond malloc's): an address aligned for the type whose residue modulo twice that alignment alternates - an object relocated by
// bytes lands on an address that is right for its type and different modulo any larger power of two; the slack around it is poisoned.
#if defined(__SANITIZE_ADDRESS__)
#define VF_ASAN_POISON 1
#elif defined(__has_feature)
#if __has_feature(address_sanitizer)
#define VF_ASAN_POISON 1
#endif
#endif
#ifdef VF_ASAN_POISON
extern "C" void __asan_poison_memory_region(void const volatile *, size_t);
extern "C" void __asan_unpoison_memory_region(void const volatile *, size_t);
#endif
struct ObjBlock { void *obj, *raw; size_t total; };
static ObjBlock g_objblocks[64];
inline void *obj_alloc(size_t size, size_t align, bool vary) {
  MonScope m;
  if (!vary) return malloc(size);
  if (align < 16) align = 16;
  static unsigned flip = 0;
  const size_t a2 = 2 * align, total = size + 2 * a2;
  char *raw = static_cast<char *>(malloc(total));
  uintptr_t p = (reinterpret_cast<uintptr_t>(raw) + a2 - 1) / a2 * a2;
  if (flip++ & 1) p += align;
  for (ObjBlock &b : g_objblocks)
    if (!b.obj) {
      b.obj = reinterpret_cast<void *>(p); b.raw = raw; b.total = total;
#ifdef VF_ASAN_POISON
      __asan_poison_memory_region(raw, p - reinterpret_cast<uintptr_t>(raw));
      __asan_poison_memory_region(reinterpret_cast<char *>(p) + size, static_cast<size_t>(raw + total - (reinterpret_cast<char *>(p) + size)));
#endif
      return b.obj;
    }
  fprintf(stderr, "obj_alloc: table full\n");
  _exit(2);
}
inline void obj_free(void *p, bool vary) {
  MonScope m;
  if (!p) return;
  if (!vary) { free(p); return; }
  for (ObjBlock &b : g_objblocks)
    if (b.obj == p) {
#ifdef VF_ASAN_POISON
      __asan_unpoison_memory_region(b.raw, b.total);
#endif
      free(b.raw);
      b.obj = nullptr;
      return;
    }
  fprintf(stderr, "obj_free: unknown object\n");
  _exit(2);
}

// ---------------------------------------------------------------- global allocation hook (2.3)
static uint64_t g_hooked_mallocs = 0;  // mallocs made by the library inside a monitored window
static uint64_t g_hook_alive = 0;      // all mallocs seen by the hook (shows that the hook works)
#if defined(__SANITIZE_ADDRESS__)
#define VF_HAS_ASAN 1
#elif defined(__has_feature)
#if __has_feature(address_sanitizer)
#define VF_HAS_ASAN 1
#endif
#endif
#ifdef VF_HAS_ASAN
extern "C" int __sanitizer_install_malloc_and_free_hooks(void (*)(const volatile void *, size_t),
                                                         void (*)(const volatile void *));
static void hook_malloc(const volatile void *, size_t) {
  ++g_hook_alive;
  if (g_in_call && g_monitor_depth == 0) ++g_hooked_mallocs;
}
static void hook_free(const volatile void *) {}
inline bool install_malloc_hook() { return __sanitizer_install_malloc_and_free_hooks(hook_malloc, hook_free) != 0; }
#else
inline bool install_malloc_hook() { return false; }
#endif

}  // namespace vf
