// Element types with identity and the element ledger (DESIGN 2.1).  C++11 compatible.
#pragma once

#include <cmath>
#include <cstddef>
#include <cstdint>
#include <cstring>
#include <initializer_list>
#include <type_traits>
#include <utility>
#if __cplusplus >= 202002L
#include <compare>
#endif

#include "core.hpp"

namespace vf {

// plain value used by the reference models. key == kNaNKey models an IEEE NaN (unordered, unequal to everything) for raw floating point elements.
static const int kNaNKey = 1 << 20;
struct Val {
  int key;
  unsigned pay;
  Val() : key(0), pay(0) {}
  Val(int k, unsigned p) : key(k), pay(p) {}
  bool nan() const { return key == kNaNKey; }
  bool same(const Val &o) const { return key == o.key && pay == o.pay; }
  bool operator==(const Val &o) const { return !nan() && !o.nan() && key == o.key; }
  bool operator!=(const Val &o) const { return !(*this == o); }
  bool operator<(const Val &o) const { return !nan() && !o.nan() && key < o.key; }
  bool operator>(const Val &o) const { return !nan() && !o.nan() && key > o.key; }
  bool operator<=(const Val &o) const { return !nan() && !o.nan() && key <= o.key; }
  bool operator>=(const Val &o) const { return !nan() && !o.nan() && key >= o.key; }
#if __cplusplus >= 202002L
  std::partial_ordering operator<=>(const Val &o) const {
    if (nan() || o.nan()) return std::partial_ordering::unordered;
    return key <=> o.key;
  }
#endif
};

// A value of ANOTHER type that converts to the element, as a double converts to an int: `half` is lost by the conversion. Ranges of such values
// are legitimate range arguments (std::vector / std::set construct the element from each value first).
struct Proto {
  int key;
  unsigned pay;
  int half;
  operator int() const { return key; }
  operator double() const;  // defined below: the same encoding of -0.0 / NaN as the double elements of the harness
};
inline Val val_of_proto(const Proto &p) { return Val(p.key, p.pay); }

struct InjectedFault {
  int at;
};

// ---------------------------------------------------------------- fault countdown (shared with the allocators)
static long g_fault_points = 0;  // throwing-capable events seen since arm()
static long g_fault_at = -1;     // index of the event that throws, -1 = never
inline void fault_point() {
  long k = g_fault_points++;
  if (g_fault_at >= 0 && k == g_fault_at && g_monitor_depth == 0) {
    g_fault_at = -1;
    InjectedFault f;
    f.at = static_cast<int>(k);
    throw f;
  }
}

// ---------------------------------------------------------------- ledger
enum Ev { EV_VCTOR, EV_DCTOR, EV_CCTOR, EV_MCTOR, EV_CASSIGN, EV_MASSIGN, EV_DTOR, EV_CMP, EV_N };
static uint64_t g_ev[EV_N];        // event counters (library-made events only, i.e. g_monitor_depth == 0)
static uint64_t g_ev_all[EV_N];    // all events
static const uint32_t kMaxSerial = 1u << 22;
struct ObjRec {
  const void *addr;
  uint32_t stamp;  // g_stamp of the last event on this object
  uint8_t live;
  uint8_t harness;  // owned by the harness (constructed inside a MonScope, or adopted)
  uint8_t ntr;
};
static ObjRec g_obj[kMaxSerial];
static uint32_t g_next_serial = 1;
static uint32_t g_stamp = 1;   // bumped by the engine before every monitored call
static long g_live_lib = 0;    // live tracked objects created by the library (and not adopted by the harness)
static long g_live_harness = 0;
static bool g_selfmove_poison = false;   // a self move-assignment silently costs the object its value (as for std::vector): the value oracles speak
static bool g_selfswap_window = false;  // an explicit self-swap is in progress: self move-assignment is legitimate
static bool g_check_raw_overwrite = true;

static const uint32_t kLiveMagic = 0x11FE0000u;
static const uint32_t kDeadMagic = 0xDEAD0000u;
static const uint32_t kMagicMask = 0xFFFF0000u;
static const uint32_t kMovedFrom = 1u;
static const int kMovedFromKey = -31337;

inline void ledger_reset() {
  MonScope m;
  if (g_live_lib != 0 || g_live_harness != 0) {
    // objects of a previous, abandoned history: forget them
    g_live_lib = 0;
    g_live_harness = 0;
  }
  memset(static_cast<void *>(g_obj), 0, sizeof(ObjRec) * (g_next_serial < kMaxSerial ? g_next_serial + 1 : kMaxSerial));
  g_next_serial = 1;
  memset(g_ev, 0, sizeof g_ev);
}

// KIND: 0 = TR (declares trivially_relocatable, not trivially copyable); 1 = NTR (stores self pointer);
//       2 = NTR move-only; 3 = NTR with potentially-throwing move (C15/C17 only); 4 = like 3 but with a noexcept copy constructor
//       asymmetric copies (moves noexcept): 5 = NTR, noexcept copy constructor, copy assignment may throw; 6 = TR, copy constructor may throw,
//       noexcept copy assignment; 7 = NTR like 6; 8 = TR like 5   (code deciding from the nothrow-ness of one copy operation about the other)
// The relocatability declaration is inherited, so that the non relocatable kinds make NO declaration at all (the "neither" category of the
// properties: amc must fall back to std::is_trivially_copyable, which is false for them) instead of an explicit opt-out.
struct DeclaresRelocatable {
  typedef std::true_type trivially_relocatable;
};
struct DeclaresNothing {};

// PAD > 0: the same object followed by PAD bytes of padding (elements larger than a cache line)
template <int PAD> struct PadBytes { unsigned char pad_bytes[PAD]; };
template <> struct PadBytes<0> {};

template <int KIND, int PAD = 0>
struct Tracked : std::conditional<KIND == 0 || KIND == 6 || KIND == 8, DeclaresRelocatable, DeclaresNothing>::type, PadBytes<PAD> {
  static const bool kIsTR = KIND == 0 || KIND == 6 || KIND == 8;
  static const bool kNothrowCopyCtor = KIND == 4 || KIND == 5 || KIND == 8;
  static const bool kNothrowCopyAssign = KIND == 6 || KIND == 7;
  int32_t key;
  uint32_t pay;
  uint32_t serial;
  uint32_t flags;
  const Tracked *self;

  // ---- helpers
  static const char *kname() { return PAD ? (KIND == 0 ? "TR_BIG" : KIND == 1 ? "NTR_BIG" : "X_BIG") : KIND == 0 ? "TR" : KIND == 1 ? "NTR" : KIND == 2 ? "NTR_MO" : KIND == 3 ? "NTR_TM" : KIND == 4 ? "NTR_NCTM" : KIND == 5 ? "NTR_NCC" : KIND == 6 ? "TR_NCA" : KIND == 7 ? "NTR_NCA" : "TR_NCC"; }
  void born(Ev e) {
    if (g_next_serial >= kMaxSerial) harness_fail("serial space exhausted");
    if (g_check_raw_overwrite && !kIsTR) {
      // the bytes under construction still describe a live object at this very address?
      uint32_t oflags, oserial;
      const void *oself;
      const char *raw = reinterpret_cast<const char *>(this);
      memcpy(&oflags, raw + offsetof(Tracked, flags), sizeof oflags);
      memcpy(&oserial, raw + offsetof(Tracked, serial), sizeof oserial);
      memcpy(&oself, raw + offsetof(Tracked, self), sizeof oself);
      if ((oflags & kMagicMask) == kLiveMagic && oself == this && oserial > 0 && oserial < g_next_serial &&
          g_obj[oserial].live && g_obj[oserial].addr == this) {
        violation("C02", "ledger.construct_over_live", fmt("%s object constructed over live object #%u", kname(), oserial));
        // the overwritten object is gone for good
        g_obj[oserial].live = 0;
        if (g_obj[oserial].harness) --g_live_harness; else --g_live_lib;
      }
    }
    serial = g_next_serial++;
    flags = kLiveMagic;
    self = this;
    ObjRec &r = g_obj[serial];
    r.addr = this;
    r.stamp = g_stamp;
    r.live = 1;
    r.ntr = !kIsTR;
    r.harness = g_monitor_depth > 0;
    if (r.harness) ++g_live_harness; else ++g_live_lib;
    ++g_ev_all[e];
    if (g_monitor_depth == 0) ++g_ev[e];
  }
  // is *this a live object? (what: the event about to happen)
  bool check_live(const char *what) const {
    if ((flags & kMagicMask) != kLiveMagic || serial == 0 || serial >= g_next_serial || !g_obj[serial].live) {
      violation("C02", "ledger.dead_object", fmt("%s on %s object outside its lifetime (serial field %u, flags %08x)", what, kname(),
                                                 serial, flags));
      return false;
    }
    if (!kIsTR && (self != this || g_obj[serial].addr != this)) {
      violation("C02", "ledger.byte_copied", fmt("%s on %s object #%u that was moved by raw byte copy (self=%p this=%p)", what, kname(),
                                                 serial, static_cast<const void *>(self), static_cast<const void *>(this)));
      return false;
    }
    return true;
  }
  void touch(Ev e) const {
    g_obj[serial].stamp = g_stamp;
    (void)e;
  }
  void count(Ev e) const {
    ++g_ev_all[e];
    if (g_monitor_depth == 0) ++g_ev[e];
  }

  // ---- special members
  Tracked() {
    fault_point();
    key = 0;
    pay = 0;
    born(EV_DCTOR);
  }
  Tracked(int k, unsigned p) {
    fault_point();
    key = k;
    pay = p;
    born(EV_VCTOR);
  }
  // The standard containers direct-initialise the element of an emplace: T(args...). A library that list-initialises it, T{args...}, selects this
  // constructor instead of (int, unsigned) - as it would for std::vector<int>{2, 7} or std::string{n, 'a'} - and the value is not the expected one.
  Tracked(std::initializer_list<long long> il) {
    fault_point();
    key = -4242;
    pay = static_cast<uint32_t>(il.size());
    born(EV_VCTOR);
  }
  // converting construction from a value of another type (ranges of Proto)
  Tracked(const Proto &p) {
    fault_point();
    key = p.key;
    pay = p.pay;
    born(EV_VCTOR);
  }
  // construction "from a reference to an element" (C10 emplace(pos, &v[src]))
  explicit Tracked(const Tracked *p) {
    fault_point();
    p->check_live("read(ctor-from-pointer)");
    key = p->key;
    pay = p->pay;
    born(EV_VCTOR);
  }
  // converting construction from a tracked object of another kind (heterogeneous uninitialized_copy / move / relocate in C15); it may throw
  template <int K2, typename std::enable_if<K2 != KIND, int>::type = 0>
  explicit Tracked(const Tracked<K2> &o) {
    fault_point();
    o.check_live("read(converting copy source)");
    key = o.key;
    pay = o.pay;
    born(EV_VCTOR);
  }
  template <int K2, typename std::enable_if<K2 != KIND, int>::type = 0>
  explicit Tracked(Tracked<K2> &&o) {
    fault_point();
    o.check_live("read(converting move source)");
    key = o.key;
    pay = o.pay;
    born(EV_VCTOR);
    o.flags |= kMovedFrom;
    o.key = kMovedFromKey;
    o.pay = 0xDEADu;
  }
  Tracked(const Tracked &o) noexcept(kNothrowCopyCtor) {
    static_assert(KIND != 2, "move-only");
    if (!kNothrowCopyCtor) fault_point();
    // an object constructed from itself: the source is the very slot under construction, i.e. raw memory (a relocated-from or shifted slot) that is
    // read as if it still held an element. A real type (a container, a string) would come out empty or corrupt.
    if (static_cast<const void *>(&o) == static_cast<const void *>(this)) violation("C02,C10", "ledger.constructed_from_itself", fmt("%s object copy-constructed from the slot it is being constructed in", kname()));
    o.check_live("read(copy-ctor source)");
    key = o.key;
    pay = o.pay;
    born(EV_CCTOR);
  }
  Tracked(Tracked &&o) noexcept(KIND != 3 && KIND != 4) {
    if (KIND == 3 || KIND == 4) fault_point();
    if (static_cast<const void *>(&o) == static_cast<const void *>(this)) violation("C02,C10", "ledger.constructed_from_itself", fmt("%s object move-constructed from the slot it is being constructed in", kname()));
    o.check_live("read(move-ctor source)");
    key = o.key;
    pay = o.pay;
    born(EV_MCTOR);
    o.flags |= kMovedFrom;
    o.key = kMovedFromKey;  // like std::string: the value is gone, a later read of the source shows up in the value oracles
    o.pay = 0xDEADu;
    o.touch(EV_MCTOR);
  }
  Tracked &operator=(const Tracked &o) noexcept(kNothrowCopyAssign) {
    static_assert(KIND != 2, "move-only");
    if (!kNothrowCopyAssign) fault_point();
    bool ok = check_live("copy-assign(dest)");
    o.check_live("read(copy-assign source)");
    // two objects at different addresses carrying the same identity: the source is the stale bitwise copy that a relocation left behind (its twin is the
    // destination). A type that owns a resource would release, in this assignment, the very resource the source still refers to.
    if (this != &o && serial == o.serial && g_monitor_depth == 0) violation("C02,C10", "ledger.assign_from_relocated_twin", fmt("%s object #%u copy-assigned from the bytes it was relocated from", kname(), serial));
    key = o.key;
    pay = o.pay;
    if (ok) {
      if (this != &o) flags &= ~kMovedFrom;
      touch(EV_CASSIGN);
      count(EV_CASSIGN);
    }
    return *this;
  }
  Tracked &operator=(Tracked &&o) noexcept(KIND != 3 && KIND != 4) {
    if (KIND == 3 || KIND == 4) fault_point();
    bool ok = check_live("move-assign(dest)");
    o.check_live("read(move-assign source)");
    if (this == &o) {
      if (g_selfmove_poison && g_monitor_depth == 0) {
        key = -999;
      } else if (!g_selfswap_window && g_monitor_depth == 0) {
        violation("C02", "ledger.self_move_assign", fmt("%s object #%u move-assigned onto itself", kname(), serial));
        key = -999;  // a type whose self-move is destructive loses its value
      }
      return *this;
    }
    key = o.key;
    pay = o.pay;
    if (ok) {
      flags &= ~kMovedFrom;
      touch(EV_MASSIGN);
      count(EV_MASSIGN);
    }
    o.flags |= kMovedFrom;
    o.key = kMovedFromKey;
    o.pay = 0xDEADu;
    if ((o.flags & kMagicMask) == kLiveMagic) o.touch(EV_MASSIGN);
    return *this;
  }
  ~Tracked() {
    if (check_live("destructor")) {
      ObjRec &r = g_obj[serial];
      r.live = 0;
      r.stamp = g_stamp;
      if (r.harness) --g_live_harness; else --g_live_lib;
      ++g_ev_all[EV_DTOR];
      if (g_monitor_depth == 0) ++g_ev[EV_DTOR];
    }
    flags = kDeadMagic | (flags & kMovedFrom);
  }

  // ---- reads made by the library (comparisons)
  bool operator==(const Tracked &o) const { check_live("read(==)"); o.check_live("read(==)"); return key == o.key; }
  bool operator!=(const Tracked &o) const { return !(*this == o); }
  bool operator<(const Tracked &o) const { check_live("read(<)"); o.check_live("read(<)"); return key < o.key; }
  bool operator>(const Tracked &o) const { return o < *this; }
  bool operator<=(const Tracked &o) const { return !(o < *this); }
  bool operator>=(const Tracked &o) const { return !(*this < o); }
#if __cplusplus >= 202002L
  std::strong_ordering operator<=>(const Tracked &o) const { check_live("read(<=>)"); o.check_live("read(<=>)"); return key <=> o.key; }
#endif

};

typedef Tracked<0> TR;
typedef Tracked<1> NTR;
typedef Tracked<2> NTR_MO;
typedef Tracked<3> NTR_TM;
typedef Tracked<4> NTR_NCTM;  // noexcept copy, throwing move
typedef Tracked<5> NTR_NCC;   // noexcept copy constructor, copy assignment may throw
typedef Tracked<6> TR_NCA;    // copy constructor may throw, noexcept copy assignment
typedef Tracked<7> NTR_NCA;
typedef Tracked<8> TR_NCC;
typedef Tracked<0, 72> TR_BIG;   // 96 bytes: larger than a cache line
typedef Tracked<1, 72> NTR_BIG;

// the harness takes ownership of an object the library created (value returned by pop_back_val, node contents)
template <int K, int P>
inline void ledger_adopt(const Tracked<K, P> &o) {
  if (o.serial > 0 && o.serial < g_next_serial && g_obj[o.serial].live && !g_obj[o.serial].harness) {
    g_obj[o.serial].harness = 1;
    --g_live_lib;
    ++g_live_harness;
  }
}
// the harness hands an object over to the library's accounting (it now sits inside a container)
template <int K, int P>
inline void ledger_disown(const Tracked<K, P> &o) {
  if (o.serial > 0 && o.serial < g_next_serial && g_obj[o.serial].live && g_obj[o.serial].harness) {
    g_obj[o.serial].harness = 0;
    ++g_live_lib;
    --g_live_harness;
  }
}

// ---------------------------------------------------------------- trivially copyable elements
struct TC4 {
  int16_t key;
  uint16_t pay;
  TC4() = default;
  TC4(int k, unsigned p) : key(static_cast<int16_t>(k)), pay(static_cast<uint16_t>(p)) {}
  TC4(std::initializer_list<long long> il) : key(-4242), pay(static_cast<uint16_t>(il.size())) {}  // selected by T{k, p}: emplace must direct-initialise
  TC4(const Proto &p) : key(static_cast<int16_t>(p.key)), pay(static_cast<uint16_t>(p.pay)) {}
  explicit TC4(const TC4 *p) : key(p->key), pay(p->pay) {}
  bool operator==(const TC4 &o) const { return key == o.key; }
  bool operator!=(const TC4 &o) const { return key != o.key; }
  bool operator<(const TC4 &o) const { return key < o.key; }
  bool operator>(const TC4 &o) const { return key > o.key; }
  bool operator<=(const TC4 &o) const { return key <= o.key; }
  bool operator>=(const TC4 &o) const { return key >= o.key; }
#if __cplusplus >= 202002L
  std::strong_ordering operator<=>(const TC4 &o) const { return key <=> o.key; }
#endif
};
struct TC1 {
  uint8_t b;  // key in the low 3 bits, payload in the high 5
  TC1() = default;
  TC1(int k, unsigned p) : b(static_cast<uint8_t>((k & 7) | ((p & 31) << 3))) {}
  TC1(const Proto &p) : b(static_cast<uint8_t>((p.key & 7) | ((p.pay & 31) << 3))) {}
  explicit TC1(const TC1 *p) : b(p->b) {}
  int k() const { return b & 7; }
  bool operator==(const TC1 &o) const { return k() == o.k(); }
  bool operator!=(const TC1 &o) const { return k() != o.k(); }
  bool operator<(const TC1 &o) const { return k() < o.k(); }
  bool operator>(const TC1 &o) const { return k() > o.k(); }
  bool operator<=(const TC1 &o) const { return k() <= o.k(); }
  bool operator>=(const TC1 &o) const { return k() >= o.k(); }
#if __cplusplus >= 202002L
  std::strong_ordering operator<=>(const TC1 &o) const { return k() <=> o.k(); }
#endif
};
struct TC12 {
  int32_t key;
  uint32_t pay;
  uint32_t chk;  // == ~pay for every value the harness created or that was default-initialised to zero with pay 0
  TC12() = default;
  TC12(int k, unsigned p) : key(k), pay(p), chk(~p) {}
  TC12(const Proto &p) : key(p.key), pay(p.pay), chk(~p.pay) {}
  explicit TC12(const TC12 *p) : key(p->key), pay(p->pay), chk(p->chk) {}
  bool operator==(const TC12 &o) const { return key == o.key; }
  bool operator!=(const TC12 &o) const { return key != o.key; }
  bool operator<(const TC12 &o) const { return key < o.key; }
  bool operator>(const TC12 &o) const { return key > o.key; }
  bool operator<=(const TC12 &o) const { return key <= o.key; }
  bool operator>=(const TC12 &o) const { return key >= o.key; }
#if __cplusplus >= 202002L
  std::strong_ordering operator<=>(const TC12 &o) const { return key <=> o.key; }
#endif
};
// 8-byte, pointer-aligned trivially copyable element (exactly one pointer slot)
struct TC8 {
  int32_t key;
  uint32_t pay;
  TC8() = default;
  TC8(int k, unsigned p) : key(k), pay(p) {}
  TC8(std::initializer_list<long long> il) : key(-4242), pay(static_cast<uint32_t>(il.size())) {}  // selected by T{k, p}: emplace must direct-initialise
  TC8(const Proto &p) : key(p.key), pay(p.pay) {}
  explicit TC8(const TC8 *p) : key(p->key), pay(p->pay) {}
  bool operator==(const TC8 &o) const { return key == o.key; }
  bool operator!=(const TC8 &o) const { return key != o.key; }
  bool operator<(const TC8 &o) const { return key < o.key; }
  bool operator>(const TC8 &o) const { return key > o.key; }
  bool operator<=(const TC8 &o) const { return key <= o.key; }
  bool operator>=(const TC8 &o) const { return key >= o.key; }
#if __cplusplus >= 202002L
  std::strong_ordering operator<=>(const TC8 &o) const { return key <=> o.key; }
#endif
};

// over-aligned trivially copyable element (16 bytes, 16-byte aligned): a misplaced inline slot is a misaligned access for UBSan
struct alignas(16) TC16A {
  int32_t key;
  uint32_t pay;
  TC16A() = default;
  TC16A(int k, unsigned p) : key(k), pay(p) {}
  TC16A(const Proto &p) : key(p.key), pay(p.pay) {}
  explicit TC16A(const TC16A *p) : key(p->key), pay(p->pay) {}
  bool operator==(const TC16A &o) const { return key == o.key; }
  bool operator!=(const TC16A &o) const { return key != o.key; }
  bool operator<(const TC16A &o) const { return key < o.key; }
  bool operator>(const TC16A &o) const { return key > o.key; }
  bool operator<=(const TC16A &o) const { return key <= o.key; }
  bool operator>=(const TC16A &o) const { return key >= o.key; }
#if __cplusplus >= 202002L
  std::strong_ordering operator<=>(const TC16A &o) const { return key <=> o.key; }
#endif
};

// alignment beyond alignof(std::max_align_t) (32 bytes, 32-byte aligned): only for containers that keep their elements inside the object
// (the malloc based allocators do not serve such types); the objects under test are placed on alternating residues modulo 64
struct alignas(32) TC32A {
  int32_t key;
  uint32_t pay;
  TC32A() = default;
  TC32A(int k, unsigned p) : key(k), pay(p) {}
  TC32A(const Proto &p) : key(p.key), pay(p.pay) {}
  explicit TC32A(const TC32A *p) : key(p->key), pay(p->pay) {}
  bool operator==(const TC32A &o) const { return key == o.key; }
  bool operator!=(const TC32A &o) const { return key != o.key; }
  bool operator<(const TC32A &o) const { return key < o.key; }
  bool operator>(const TC32A &o) const { return key > o.key; }
  bool operator<=(const TC32A &o) const { return key <= o.key; }
  bool operator>=(const TC32A &o) const { return key >= o.key; }
#if __cplusplus >= 202002L
  std::strong_ordering operator<=>(const TC32A &o) const { return key <=> o.key; }
#endif
};

// narrow keys without payload (1 and 2 bytes): code that depends on sizeof(T) (thresholds counted in elements per cache line, ...)
struct K1 {
  uint8_t k;
  K1() = default;
  K1(int key, unsigned) : k(static_cast<uint8_t>(key)) {}
  K1(const Proto &p) : k(static_cast<uint8_t>(p.key)) {}
  bool operator==(const K1 &o) const { return k == o.k; }
  bool operator!=(const K1 &o) const { return k != o.k; }
  bool operator<(const K1 &o) const { return k < o.k; }
  bool operator>(const K1 &o) const { return k > o.k; }
  bool operator<=(const K1 &o) const { return k <= o.k; }
  bool operator>=(const K1 &o) const { return k >= o.k; }
#if __cplusplus >= 202002L
  std::strong_ordering operator<=>(const K1 &o) const { return k <=> o.k; }
#endif
};
struct K2 {
  int16_t k;
  K2() = default;
  K2(int key, unsigned) : k(static_cast<int16_t>(key)) {}
  K2(const Proto &p) : k(static_cast<int16_t>(p.key)) {}
  bool operator==(const K2 &o) const { return k == o.k; }
  bool operator!=(const K2 &o) const { return k != o.k; }
  bool operator<(const K2 &o) const { return k < o.k; }
  bool operator>(const K2 &o) const { return k > o.k; }
  bool operator<=(const K2 &o) const { return k <= o.k; }
  bool operator>=(const K2 &o) const { return k >= o.k; }
#if __cplusplus >= 202002L
  std::strong_ordering operator<=>(const K2 &o) const { return k <=> o.k; }
#endif
};

// ---------------------------------------------------------------- uniform access
template <class E>
struct EI;
template <int K, int P>
struct EI<Tracked<K, P> > {
  typedef Tracked<K, P> E;
  static const bool kTracked = true;
  static const bool kRelocatable = K == 0 || K == 6 || K == 8;  // what the type declares - independent of amc's trait implementation
  static const bool kCopyable = K != 2;
  static const char *name() { return E::kname(); }
  static Val val(const E &e) { return Val(e.key, e.pay); }
  static Val norm(Val v) { return v; }
  static bool plausible(const E &) { return true; }
};
template <>
struct EI<TC4> {
  typedef TC4 E;
  static const bool kTracked = false, kRelocatable = true, kCopyable = true;
  static const char *name() { return "TC4"; }
  static Val val(const E &e) { return Val(e.key, e.pay); }
  static Val norm(Val v) { return Val(static_cast<int16_t>(v.key), static_cast<uint16_t>(v.pay)); }
};
template <>
struct EI<TC1> {
  typedef TC1 E;
  static const bool kTracked = false, kRelocatable = true, kCopyable = true;
  static const char *name() { return "TC1"; }
  static Val val(const E &e) { return Val(e.b & 7, e.b >> 3); }
  static Val norm(Val v) { return Val(v.key & 7, v.pay & 31); }
};
template <>
struct EI<TC12> {
  typedef TC12 E;
  static const bool kTracked = false, kRelocatable = true, kCopyable = true;
  static const char *name() { return "TC12"; }
  // a torn / raw slot shows up as chk != ~pay (reported through a payload that cannot match the model)
  static Val val(const E &e) { return (e.chk == ~e.pay || (e.key == 0 && e.pay == 0 && e.chk == 0)) ? Val(e.key, e.pay) : Val(-77777, e.pay); }
  static Val norm(Val v) { return v; }
};
template <>
struct EI<TC8> {
  typedef TC8 E;
  static const bool kTracked = false, kRelocatable = true, kCopyable = true;
  static const char *name() { return "TC8"; }
  static Val val(const E &e) { return Val(e.key, e.pay); }
  static Val norm(Val v) { return v; }
};

template <>
struct EI<TC16A> {
  typedef TC16A E;
  static const bool kTracked = false, kRelocatable = true, kCopyable = true;
  static const char *name() { return "TC16A"; }
  static Val val(const E &e) { return Val(e.key, e.pay); }
  static Val norm(Val v) { return v; }
};
template <>
struct EI<TC32A> {
  typedef TC32A E;
  static const bool kTracked = false, kRelocatable = true, kCopyable = true;
  static const char *name() { return "TC32A"; }
  static Val val(const E &e) { return Val(e.key, e.pay); }
  static Val norm(Val v) { return v; }
};
template <>
struct EI<K1> {
  typedef K1 E;
  static const bool kTracked = false, kRelocatable = true, kCopyable = true;
  static const char *name() { return "K1"; }
  static Val val(const E &e) { return Val(e.k, 0); }
  static Val norm(Val v) { return Val(v.key & 255, 0); }
};
template <>
struct EI<K2> {
  typedef K2 E;
  static const bool kTracked = false, kRelocatable = true, kCopyable = true;
  static const char *name() { return "K2"; }
  static Val val(const E &e) { return Val(e.k, 0); }
  static Val norm(Val v) { return Val(static_cast<int16_t>(v.key), 0); }
};

// raw arithmetic elements (the library may special-case std::is_arithmetic / is_trivial types)
template <>
struct EI<int> {
  typedef int E;
  static const bool kTracked = false, kRelocatable = true, kCopyable = true;
  static const char *name() { return "int"; }
  static Val val(const E &e) { return Val(e, 0); }
  static Val norm(Val v) { return Val(v.key, 0); }
  static E encode(Val v) { return v.key; }
};
template <>
struct EI<double> {
  typedef double E;
  static const bool kTracked = false, kRelocatable = true, kCopyable = true;
  static const char *name() { return "double"; }
  // key 5 of the generators' small domain is a NaN, key 0 with an odd payload is -0.0 (equal to +0.0 for operator==, different bytes)
  static Val val(const E &e) { return e != e ? Val(kNaNKey, 0) : Val(static_cast<int>(e), (e == 0 && std::signbit(e)) ? 1u : 0u); }
  static Val norm(Val v) { return v.key == 5 || v.key == kNaNKey ? Val(kNaNKey, 0) : v.key == 0 ? Val(0, v.pay & 1u) : Val(v.key, 0); }
  static E encode(Val v) { return v.key == 5 || v.key == kNaNKey ? std::nan("") : v.key == 0 ? ((v.pay & 1u) ? -0.0 : 0.0) : static_cast<double>(v.key); }
};

inline Proto::operator double() const { return EI<double>::encode(Val(key, pay)); }

// construction of an element from a model value: by (key, payload) constructor for the class types, by value for raw arithmetic types
template <class E, bool A = std::is_arithmetic<E>::value>
struct Mk {
  static E make(Val v) { return E(v.key, v.pay); }
};
template <class E>
struct Mk<E, true> {
  static E make(Val v) { return EI<E>::encode(v); }
};

template <class E>
inline E make_elem(Val v) {
  return Mk<E>::make(v);
}

}  // namespace vf
