// Comparators with call counting and provenance (DESIGN 2.4).
#pragma once

#include "core.hpp"
#include "elem.hpp"

namespace vf {

static uint64_t g_cmp_calls = 0;         // calls made by the library (g_monitor_depth == 0)
static uint64_t g_cmp_calls_all = 0;
static bool g_cmp_prov_reported = false;

template <int K, int P>
inline int key_of(const Tracked<K, P> &e) { e.check_live("read(comparator)"); return e.key; }
inline int key_of(const TC4 &e) { return e.key; }
inline int key_of(const TC1 &e) { return e.b & 7; }
inline int key_of(const TC8 &e) { return e.key; }
inline int key_of(const TC16A &e) { return e.key; }
inline int key_of(const TC32A &e) { return e.key; }
inline int key_of(const K1 &e) { return e.k; }
inline int key_of(const K2 &e) { return e.k; }
inline int key_of(const TC12 &e) { return e.key; }
inline int key_of(const Val &v) { return v.key; }
inline int key_of(const Proto &p) { return p.key; }  // as if converted first: what a non transparent comparator sees
inline int key_of(int k) { return k; }
inline int key_of(double d) { return static_cast<int>(d); }

template <int K, int P>
inline unsigned pay_of(const Tracked<K, P> &e) { return e.pay; }
inline unsigned pay_of(const TC4 &e) { return e.pay; }
inline unsigned pay_of(const TC1 &e) { return static_cast<unsigned>(e.b >> 3); }
inline unsigned pay_of(const TC8 &e) { return e.pay; }
inline unsigned pay_of(const TC12 &e) { return e.pay; }
inline unsigned pay_of(const TC16A &e) { return e.pay; }
inline unsigned pay_of(const TC32A &e) { return e.pay; }
inline unsigned pay_of(const Val &v) { return v.pay; }
inline unsigned pay_of(const Proto &p) { return p.pay; }
template <class X>
inline unsigned pay_of(const X &) { return 0; }  // raw arithmetic and key-only elements

static const int kHarnessOrigin = 0x5A;

// Common part: `origin` tells whether this instance descends (by copy) from the instance the harness passed in.
struct CmpProv {
  int origin;
  CmpProv() : origin(0) {}
  explicit CmpProv(int o) : origin(o) {}
  void called() const {
    ++g_cmp_calls_all;
    if (g_monitor_depth == 0) {
      ++g_cmp_calls;
      if (origin != kHarnessOrigin && !g_cmp_prov_reported) {
        g_cmp_prov_reported = true;
        violation("C03,C04", "comparator.not_the_stored_one",
                  "an ordering decision was taken by a comparator object that is not (a copy of) the one the set was constructed with");
      }
    }
  }
};

struct Less : CmpProv {
  Less() {}
  explicit Less(int o) : CmpProv(o) {}
  template <class A, class B>
  bool operator()(const A &a, const B &b) const { called(); return key_of(a) < key_of(b); }
  static const char *name() { return "less"; }
  static int cls(int k) { return k; }
  static bool lt(int a, int b) { return a < b; }
};
struct Greater : CmpProv {
  Greater() {}
  explicit Greater(int o) : CmpProv(o) {}
  template <class A, class B>
  bool operator()(const A &a, const B &b) const { called(); return key_of(a) > key_of(b); }
  static const char *name() { return "greater"; }
};
// equivalence classes of two keys: which representative survives is observable through the payload
// EMPTY comparator classes (no provenance tag, no state): library code that specialises on std::is_empty<Compare> - as it may for the default
// std::less<T> - is reached only with such a type. (No provenance check and no call counting is possible with them.)
struct EmptyLess {
  EmptyLess() {}
  explicit EmptyLess(int) {}
  template <class A, class B>
  bool operator()(const A &a, const B &b) const { return key_of(a) < key_of(b); }
  static const char *name() { return "empty_less"; }
  static int cls(int k) { return k; }
  static bool lt(int a, int b) { return a < b; }
};
struct EmptyCoarse {
  EmptyCoarse() {}
  explicit EmptyCoarse(int) {}
  template <class A, class B>
  bool operator()(const A &a, const B &b) const { return key_of(a) / 2 < key_of(b) / 2; }
  static const char *name() { return "empty_coarse"; }
};
struct Coarse : CmpProv {
  Coarse() {}
  explicit Coarse(int o) : CmpProv(o) {}
  template <class A, class B>
  bool operator()(const A &a, const B &b) const { called(); return key_of(a) / 2 < key_of(b) / 2; }
  static const char *name() { return "coarse"; }
};
// finer than operator== of the elements (which compares keys only): orders by key, then by the parity of the payload. Two elements that are
// == to each other can both be in the set; an implementation that decides with operator== instead of the comparator drops one of them.
struct FinePar : CmpProv {
  FinePar() {}
  explicit FinePar(int o) : CmpProv(o) {}
  template <class A, class B>
  bool operator()(const A &a, const B &b) const {
    called();
    int ka = key_of(a), kb = key_of(b);
    return ka != kb ? ka < kb : (pay_of(a) & 1u) < (pay_of(b) & 1u);
  }
  static const char *name() { return "fine_parity"; }
};
// direction held in the object: a default-constructed instance orders the other way round
struct Stateful : CmpProv {
  int dir;
  Stateful() : dir(1) {}
  explicit Stateful(int o) : CmpProv(o), dir(-1) {}
  Stateful(int o, int d) : CmpProv(o), dir(d) {}
  template <class A, class B>
  bool operator()(const A &a, const B &b) const { called(); return dir > 0 ? key_of(a) < key_of(b) : key_of(a) > key_of(b); }
  static const char *name() { return "stateful"; }
};
// heterogeneous key that is equivalent to a *run* of elements: all elements whose key / 2 equals c (consistent with the order by key)
struct HalfKey {
  int c;
  int shift;  // the key designates all elements with (key >> shift) == c: a run of up to 2^shift consecutive keys
  explicit HalfKey(int c_, int shift_ = 1) : c(c_), shift(shift_) {}
};
// transparent comparator (heterogeneous lookups with int keys, and with HalfKey designating several elements at once)
struct TLess : CmpProv {
  typedef void is_transparent;
  TLess() {}
  explicit TLess(int o) : CmpProv(o) {}
  template <class A, class B>
  bool operator()(const A &a, const B &b) const { called(); return key_of(a) < key_of(b); }
  // a Proto compared AS SUCH (not converted to the element type first) lies strictly between the element it converts to and the next one,
  // like 1.5 between 1 and 2: a set that looks it up before building the element does not find the element it is about to duplicate
  template <class A>
  bool operator()(const A &a, const Proto &p) const { called(); return 2 * key_of(a) < 2 * p.key + p.half; }
  template <class B>
  bool operator()(const Proto &p, const B &b) const { called(); return 2 * p.key + p.half < 2 * key_of(b); }
  bool operator()(const Proto &a, const Proto &b) const { called(); return 2 * a.key + a.half < 2 * b.key + b.half; }
  template <class A>
  bool operator()(const A &a, const HalfKey &h) const { called(); return (key_of(a) >> h.shift) < h.c; }
  template <class B>
  bool operator()(const HalfKey &h, const B &b) const { called(); return h.c < (key_of(b) >> h.shift); }
  static const char *name() { return "transparent_less"; }
};

// per-object comparator state: the sets of one pool are constructed with comparator objects in different states where the type has state
template <class C> struct CmpVariant { static C make(int) { return C(kHarnessOrigin); } static const bool kHasState = false; };
template <> struct CmpVariant<Stateful> { static Stateful make(int v) { return Stateful(kHarnessOrigin, (v & 1) ? 1 : -1); } static const bool kHasState = true; };

template <class C> struct CmpTransparent { static const bool value = false; };
template <> struct CmpTransparent<TLess> { static const bool value = true; };

}  // namespace vf
