// C12: complete enumeration of (content, hint, value, form) for hinted insertion into a FlatSet.
// The including TU defines Elem, Cmp, VecT, VF_CFG_NAME.  "history" index = subset mask of the key domain.
#pragma once

#include <amc/flatset.hpp>

#include <set>

#include "engine_base.hpp"
#include <limits>
#include <set>

#include "mon/cmp.hpp"
#include "vec_common.hpp"

namespace vf {

template <class E, class Cmp, class VecT>
struct HintGrid : EngineBase {
  typedef typename VecT::allocator_type Alloc;
  typedef amc::FlatSet<E, Cmp, Alloc, VecT> Set;
  typedef std::set<Val, Cmp> Model;
  Cmp cmp{kHarnessOrigin};
  unsigned paycnt = 0;
  int K = 6;

  static std::vector<Val> seq(const Set &s) {
    std::vector<Val> v;
    Snap sn;
    for (auto it = s.begin(); it != s.end(); ++it) { ElemProbe<E>::probe(*it, sn); v.push_back(EI<E>::val(*it)); sn.vals.push_back(v.back()); }
    return v;
  }

  void run_mask(long mask) {
    begin_history(0, mask, 0xC12);
    std::vector<Val> content;
    for (int k = 0; k < K; ++k)
      if (mask & (1L << k)) content.push_back(EI<E>::norm(Val(2 * (k + 1), ++paycnt)));
    Model base(cmp);
    { MonScope m; for (auto &v : content) base.insert(v); }
    const size_t n = base.size();
    for (int value = 1; value <= 2 * K + 1 && !g_cut; ++value) {
      for (size_t hint = 0; hint <= n && !g_cut; ++hint) {
        for (int form = 0; form < 4 && !g_cut; ++form) {
          Val x = EI<E>::norm(Val(value, ++paycnt));
          Model m(cmp);
          bool present;
          long lb;
          { MonScope mm; m = base; present = m.count(x) != 0; lb = std::distance(m.begin(), m.lower_bound(x)); }
          std::string hc = static_cast<long>(hint) == lb ? "hint=lb" : static_cast<long>(hint) == lb + 1 ? "hint=lb+1" : static_cast<long>(hint) < lb ? "hint<lb" : "hint>lb+1";
          set_op(form == 0 ? "insert(hint,const&)" : form == 1 ? "insert(hint,&&)" : form == 2 ? "emplace_hint" : "emplace_hint(value of another type)", n == 0 ? "empty" : "nonempty", (present ? "present," : "absent,") + hc,
                 fmt("mask=%ld hint=%zu value=%d", mask, hint, value));
          // two identical sets
          Set *s1, *s2;
          { MonScope mm; s1 = static_cast<Set *>(malloc(sizeof(Set))); s2 = static_cast<Set *>(malloc(sizeof(Set))); }
          window([&] { new (s1) Set(cmp); });
          window([&] { new (s2) Set(cmp); });
          for (auto &v : content) { window([&] { s1->emplace(v.key, v.pay); }); window([&] { s2->emplace(v.key, v.pay); }); }
          long got = -1;
          E *e;
          { MonScope mm; e = new E(x.key, x.pay); }
          if (form == 0) window([&] { auto it_ = s1->insert(s1->begin() + hint, *e); got = it_ - s1->begin(); });
          else if (form == 1) window([&] { auto it_ = s1->insert(s1->begin() + hint, std::move(*e)); got = it_ - s1->begin(); });
          else if (form == 2) window([&] { auto it_ = s1->emplace_hint(s1->begin() + hint, x.key, x.pay); got = it_ - s1->begin(); });
          else {
            // a single argument of another type that converts to the element (as emplace_hint(h, 4.5) on a set of int): the element is built first
            Proto pr; pr.key = x.key; pr.pay = x.pay; pr.half = 1;
            window([&] { auto it_ = s1->emplace_hint(s1->begin() + hint, pr); got = it_ - s1->begin(); });
          }
          bool threw1 = threw;
          E *e2;
          { MonScope mm; delete e; e2 = new E(x.key, x.pay); }
          window([&] { s2->insert(*e2); });
          {
            MonScope mm;
            delete e2;
            if (threw1 || threw) violation("C12", "hint.exception", "hinted or plain insertion threw");
            else {
              auto r = m.insert(x);
              std::vector<Val> a = seq(*s1), b = seq(*s2), c(m.begin(), m.end());
              if (!same_vals(a, b)) violation("C12", "hint.differs_from_plain_insert", fmt("hinted: %s plain: %s", vals_str(a).c_str(), vals_str(b).c_str()));
              else if (!same_vals(a, c)) violation("C12,C03", "hint.differs_from_std_set", fmt("hinted: %s std::set: %s", vals_str(a).c_str(), vals_str(c).c_str()));
              for (size_t i = 1; i < a.size(); ++i)
                if (!cmp(a[i - 1], a[i])) { violation("C12", "hint.order_broken", fmt("not strictly increasing: %s", vals_str(a).c_str())); break; }
              if (got < 0 || got >= static_cast<long>(a.size())) violation("C12", "hint.returned_iterator_out_of_range", fmt("returned position %ld of %zu", got, a.size()));
              else if (cmp(a[got], x) || cmp(x, a[got])) violation("C12", "hint.returned_iterator_not_equivalent", fmt("returned iterator designates %d.%u, value is %d", a[got].key, a[got].pay, x.key));
              else if (!a[got].same(*r.first)) violation("C12", "hint.returned_iterator_wrong_element", "returned iterator does not designate the element std::set keeps");
            }
          }
          window([&] { s1->~Set(); });
          window([&] { s2->~Set(); });
          MonScope mm;
          free(s1);
          free(s2);
          ++counters["triples"];
        }
      }
    }
    if (g_cut) { ++n_cut; return; }
    MonScope mm;
    if (EI<E>::kTracked && g_live_lib != 0) violation("C02", "ledger.alive_at_end", "elements alive after the sets were destroyed");
    if (g_blk_live != 0) violation("C06", "alloc.outstanding_at_end", "blocks outstanding after the sets were destroyed");
    if (!g_cut) end_history_ok();
  }

  // Large sets: code paths gated by the number of elements before the hint (thresholds in bytes / cache lines) are out of reach of the small
  // enumeration above. A set of n keys 4, 8, 12, .. (distinct classes also for the coarse comparator, gaps included); around several anchors every hint within +-72 positions of the lower bound, for the value
  // present at the anchor and for the absent value just below it, in the three call forms; judged against plain insertion (size, order, returned
  // iterator) - the set is restored after every call.
  void run_big(size_t n, long hidx) {
    begin_history(0, hidx, 0xC12);
    if (n + 2 > static_cast<size_t>(VF_HG_MAX_N)) { end_history_ok(); return; }
    Set *s;
    { MonScope mm; s = static_cast<Set *>(malloc(sizeof(Set))); }
    window([&] { new (s) Set(cmp); });
    bool asc;
    { MonScope mm; asc = cmp(Val(4, 0), Val(8, 0)); }
    for (size_t i = 0; i < n; ++i) {
      int k = static_cast<int>(4 * (i + 1));
      unsigned p = ++paycnt;
      if (asc) window([&] { s->emplace_hint(s->end(), k, p); });
      else window([&] { s->emplace_hint(s->begin(), k, p); });
    }
    if (static_cast<size_t>(s->size()) != n) harness_fail("hint grid: big set construction failed");
    const size_t anchors[] = {n / 2, n - 1, n - 40, 100, 1200 < n ? 1200 : n / 3};
    for (size_t ai = 0; ai < 5 && !g_cut; ++ai) {
      const size_t rank = anchors[ai] < n ? anchors[ai] : n - 1;  // rank in ascending key order
      for (int wantp = 0; wantp < 2 && !g_cut; ++wantp) {
        const int key = static_cast<int>(4 * (rank + 1)) - (wantp ? 0 : 2);
        Val x = EI<E>::norm(Val(key, 0));
        for (long d = -72; d <= 72 && !g_cut; ++d) {
          for (int form = 0; form < 3 && !g_cut; ++form) {
            unsigned p = ++paycnt;
            // what the set itself says about this very value (the comparator may look at more than the key)
            size_t lb;
            bool present;
            { MonScope mm; E *t = new E(x.key, p); lb = static_cast<size_t>(s->lower_bound(*t) - s->begin()); present = s->contains(*t); delete t; }
            long h = static_cast<long>(lb) + d;
            if (h < 0 || h > static_cast<long>(n)) continue;
            set_op(form == 0 ? "insert(hint,const&)" : form == 1 ? "insert(hint,&&)" : "emplace_hint", "big", std::string(present ? "present," : "absent,") + (d == 0 ? "hint=lb" : d < 0 ? "hint<lb" : "hint>lb"),
                   fmt("n=%zu value=%d lower_bound=%zu hint=%ld", n, key, lb, h));
            E *e;
            { MonScope mm; e = new E(x.key, p); }
            long got = -1;
            if (form == 0) window([&] { auto it_ = s->insert(s->begin() + h, *e); got = it_ - s->begin(); });
            else if (form == 1) window([&] { auto it_ = s->insert(s->begin() + h, std::move(*e)); got = it_ - s->begin(); });
            else window([&] { auto it_ = s->emplace_hint(s->begin() + h, x.key, p); got = it_ - s->begin(); });
            {
              MonScope mm;
              delete e;
              const size_t want_size = n + (present ? 0 : 1);
              if (threw) violation("C12", "hint.exception", "hinted insertion into a large set threw");
              else if (static_cast<size_t>(s->size()) != want_size) violation("C12,C03", "hint.differs_from_plain_insert", fmt("large set: size is %zu after the hinted insertion, plain insertion gives %zu", static_cast<size_t>(s->size()), want_size));
              else if (got != static_cast<long>(lb)) violation("C12,C03", "hint.returned_iterator_wrong_element", fmt("large set: returned position %ld, the element equivalent to the value is at %zu", got, lb));
              else {
                // local order around the insertion point (the rest of the set was not touched: checked by the final walk)
                size_t lo = lb > 2 ? lb - 2 : 0, hi = std::min<size_t>(static_cast<size_t>(s->size()), lb + 3);
                for (size_t i = lo + 1; i < hi; ++i)
                  if (!cmp(EI<E>::val((*s)[static_cast<typename Set::size_type>(i - 1)]), EI<E>::val((*s)[static_cast<typename Set::size_type>(i)]))) { violation("C12", "hint.order_broken", "large set: not strictly increasing around the insertion point"); break; }
              }
            }
            if (g_cut) break;
            if (!present) { E *t; { MonScope mm; t = new E(x.key, p); } window([&] { s->erase(*t); }); MonScope mm; delete t; }
            ++counters["big_set_triples"];
          }
        }
      }
    }
    if (!g_cut) {
      MonScope mm;
      std::vector<Val> a = seq(*s);
      if (a.size() != n) violation("C12", "hint.differs_from_plain_insert", "large set: size changed over the sweep");
      for (size_t i = 1; i < a.size(); ++i)
        if (!cmp(a[i - 1], a[i])) { violation("C12", "hint.order_broken", "large set: not strictly increasing after the sweep"); break; }
    }
    window([&] { s->~Set(); });
    {
      MonScope mm;
      free(s);
      if (!g_cut && EI<E>::kTracked && g_live_lib != 0) violation("C02", "ledger.alive_at_end", "elements alive after the set was destroyed");
    }
    if (!g_cut) end_history_ok();
  }
  // The library's DEFAULT comparator over integral keys at the extremes of their range. Every other configuration uses the harness' own comparator
  // types, so code specialised on std::less<T> (or on integral T) is out of their reach; differences and sums of such keys wrap. All subsets of six
  // extreme values x every value of the domain and its neighbours x every hint x three call forms, judged against std::set<T> and plain insertion.
  template <class T>
  void integral_extremes(const char *tname) {
    typedef amc::FlatSet<T> FS;  // default comparator, default underlying vector
    const T lo = std::numeric_limits<T>::min(), hi = std::numeric_limits<T>::max();
    const T mid = static_cast<T>(lo / 2 + hi / 2);
    const T dom[6] = {lo, static_cast<T>(lo + 1), static_cast<T>(mid), static_cast<T>(mid + 1), static_cast<T>(hi - 1), hi};
    std::vector<T> values;
    for (int i = 0; i < 6; ++i) { values.push_back(dom[i]); if (dom[i] != hi) values.push_back(static_cast<T>(dom[i] + 1)); if (dom[i] != lo) values.push_back(static_cast<T>(dom[i] - 1)); }
    values.push_back(static_cast<T>(mid / 2)); values.push_back(static_cast<T>(mid / 2 + hi / 2));  // (no hi - mid: that overflows a signed T)
    for (int mask = 0; mask < 64 && !g_cut; ++mask) {
      std::set<T> base;
      for (int i = 0; i < 6; ++i) if (mask & (1 << i)) base.insert(dom[i]);
      const size_t n = base.size();
      for (size_t vi = 0; vi < values.size() && !g_cut; ++vi) {
        const T x = values[vi];
        for (size_t hint = 0; hint <= n && !g_cut; ++hint)
          for (int form = 0; form < 3 && !g_cut; ++form) {
            std::set<T> m(base);
            const bool present = m.count(x) != 0;
            const long lb = static_cast<long>(std::distance(m.begin(), m.lower_bound(x)));
            set_op(form == 0 ? "insert(hint,const&)" : form == 1 ? "insert(hint,&&)" : "emplace_hint", std::string("std::less<") + tname + ">", std::string(present ? "present," : "absent,") + (static_cast<long>(hint) == lb ? "hint=lb" : static_cast<long>(hint) < lb ? "hint<lb" : "hint>lb"),
                   fmt("mask=%d value#%zu hint=%zu", mask, vi, hint));
            FS *s1, *s2;
            { MonScope mm; s1 = static_cast<FS *>(malloc(sizeof(FS))); s2 = static_cast<FS *>(malloc(sizeof(FS))); }
            window([&] { new (s1) FS(base.begin(), base.end()); });
            window([&] { new (s2) FS(base.begin(), base.end()); });
            long got = -1, got2 = -1;
            bool ins2 = false;
            T y = x;
            if (form == 0) window([&] { got = s1->insert(s1->begin() + hint, x) - s1->begin(); });
            else if (form == 1) window([&] { got = s1->insert(s1->begin() + hint, std::move(y)) - s1->begin(); });
            else window([&] { got = s1->emplace_hint(s1->begin() + hint, x) - s1->begin(); });
            if (threw) { violation("C12", "hint.unexpected_exception", threw_what); }
            window([&] { auto r = s2->insert(x); got2 = r.first - s2->begin(); ins2 = r.second; });
            if (!g_cut) {
              MonScope mm;
              m.insert(x);
              std::vector<T> a(s1->begin(), s1->end()), b(s2->begin(), s2->end()), c(m.begin(), m.end());
              if (a != c || b != c) violation("C12", "hint.differs_from_plain_insert", fmt("default comparator over %s: hinted insertion, plain insertion and std::set disagree (sizes %zu / %zu / %zu) for value #%zu, hint %zu, subset %d", tname, a.size(), b.size(), c.size(), vi, hint, mask));
              else if (got != got2 || ins2 == present) violation("C12", "hint.returned_iterator", fmt("default comparator over %s: hinted insertion returns position %ld, plain insertion %ld (inserted=%d, present=%d)", tname, got, got2, ins2, present));
            }
            window([&] { s1->~FS(); });
            window([&] { s2->~FS(); });
            MonScope mm;
            free(s1);
            free(s2);
          }
      }
    }
  }
  void run_integral(long hidx) {
    begin_history(0, hidx, 0xC12);
    integral_extremes<uint64_t>("uint64_t");
    if (!g_cut) integral_extremes<int64_t>("int64_t");
    if (!g_cut) integral_extremes<long long>("long long");
    if (!g_cut) integral_extremes<uint32_t>("uint32_t");
    if (!g_cut) integral_extremes<int32_t>("int32_t");
    if (!g_cut) integral_extremes<int16_t>("int16_t");
    if (!g_cut) integral_extremes<uint8_t>("uint8_t");
    if (!g_cut) integral_extremes<signed char>("signed char");
    if (!g_cut) end_history_ok();
  }
};

}  // namespace vf

int main(int argc, char **argv) {
  using namespace vf;
  Args a;
  a.parse(argc, argv);
  bool hook = install_malloc_hook();
  g_elem_relocatable = EI<Elem>::kRelocatable;
  g_selfswap_window = true;
  static HintGrid<Elem, Cmp, VecT> eng;
  eng.K = a.has("--k9") ? 9 : 6;
  const long masks = 1L << eng.K;
  long total = masks + 3;  // + two large-set sweeps + the default comparator over integral keys
  long to = a.to < total ? a.to : total;
  long h = a.from;
  for (; h < to; ++h) {
    if (h < masks) eng.run_mask(h);
    else if (h < masks + 2) eng.run_big(h == masks ? 1500 : 5200, h);
    else eng.run_integral(h);
    if (g_cut) break;
  }
  eng.counters["masks_total"] = masks;
  eng.write_summary(VF_CFG_NAME, a.seed, a.from, g_cut ? h + 1 : h, a.to, hook);
  if (g_cut) _exit(3);
  return 0;
}
