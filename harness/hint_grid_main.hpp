// C12: complete enumeration of (content, hint, value, form) for hinted insertion into a FlatSet.
// The including TU defines Elem, Cmp, VecT, VF_CFG_NAME.  "history" index = subset mask of the key domain.
#pragma once

#include <amc/flatset.hpp>

#include <set>

#include "engine_base.hpp"
#include "mon/cmp.hpp"
#include "vec_common.hpp"

namespace vf {

template <class E, class Cmp, class VecT>
struct HintGrid : EngineBase {
  typedef typename VecT::allocator_type Alloc;
  typedef amc::FlatSet<E, Cmp, Alloc, VecT> Set;
  typedef std::set<Val, Cmp> Model;
  Cmp cmp{kHarnessOrigin};
  unsigned paycnt = 0;
  int K = 6;

  static std::vector<Val> seq(const Set &s) {
    std::vector<Val> v;
    Snap sn;
    for (auto it = s.begin(); it != s.end(); ++it) { ElemProbe<E>::probe(*it, sn); v.push_back(EI<E>::val(*it)); sn.vals.push_back(v.back()); }
    return v;
  }

  void run_mask(long mask) {
    begin_history(0, mask, 0xC12);
    std::vector<Val> content;
    for (int k = 0; k < K; ++k)
      if (mask & (1L << k)) content.push_back(EI<E>::norm(Val(2 * (k + 1), ++paycnt)));
    Model base(cmp);
    { MonScope m; for (auto &v : content) base.insert(v); }
    const size_t n = base.size();
    for (int value = 1; value <= 2 * K + 1 && !g_cut; ++value) {
      for (size_t hint = 0; hint <= n && !g_cut; ++hint) {
        for (int form = 0; form < 4 && !g_cut; ++form) {
          Val x = EI<E>::norm(Val(value, ++paycnt));
          Model m(cmp);
          bool present;
          long lb;
          { MonScope mm; m = base; present = m.count(x) != 0; lb = std::distance(m.begin(), m.lower_bound(x)); }
          std::string hc = static_cast<long>(hint) == lb ? "hint=lb" : static_cast<long>(hint) == lb + 1 ? "hint=lb+1" : static_cast<long>(hint) < lb ? "hint<lb" : "hint>lb+1";
          set_op(form == 0 ? "insert(hint,const&)" : form == 1 ? "insert(hint,&&)" : form == 2 ? "emplace_hint" : "emplace_hint(value of another type)", n == 0 ? "empty" : "nonempty", (present ? "present," : "absent,") + hc,
                 fmt("mask=%ld hint=%zu value=%d", mask, hint, value));
          // two identical sets
          Set *s1, *s2;
          { MonScope mm; s1 = static_cast<Set *>(malloc(sizeof(Set))); s2 = static_cast<Set *>(malloc(sizeof(Set))); }
          window([&] { new (s1) Set(cmp); });
          window([&] { new (s2) Set(cmp); });
          for (auto &v : content) { window([&] { s1->emplace(v.key, v.pay); }); window([&] { s2->emplace(v.key, v.pay); }); }
          long got = -1;
          E *e;
          { MonScope mm; e = new E(x.key, x.pay); }
          if (form == 0) window([&] { auto it_ = s1->insert(s1->begin() + hint, *e); got = it_ - s1->begin(); });
          else if (form == 1) window([&] { auto it_ = s1->insert(s1->begin() + hint, std::move(*e)); got = it_ - s1->begin(); });
          else if (form == 2) window([&] { auto it_ = s1->emplace_hint(s1->begin() + hint, x.key, x.pay); got = it_ - s1->begin(); });
          else {
            // a single argument of another type that converts to the element (as emplace_hint(h, 4.5) on a set of int): the element is built first
            Proto pr; pr.key = x.key; pr.pay = x.pay; pr.half = 1;
            window([&] { auto it_ = s1->emplace_hint(s1->begin() + hint, pr); got = it_ - s1->begin(); });
          }
          bool threw1 = threw;
          E *e2;
          { MonScope mm; delete e; e2 = new E(x.key, x.pay); }
          window([&] { s2->insert(*e2); });
          {
            MonScope mm;
            delete e2;
            if (threw1 || threw) violation("C12", "hint.exception", "hinted or plain insertion threw");
            else {
              auto r = m.insert(x);
              std::vector<Val> a = seq(*s1), b = seq(*s2), c(m.begin(), m.end());
              if (!same_vals(a, b)) violation("C12", "hint.differs_from_plain_insert", fmt("hinted: %s plain: %s", vals_str(a).c_str(), vals_str(b).c_str()));
              else if (!same_vals(a, c)) violation("C12,C03", "hint.differs_from_std_set", fmt("hinted: %s std::set: %s", vals_str(a).c_str(), vals_str(c).c_str()));
              for (size_t i = 1; i < a.size(); ++i)
                if (!cmp(a[i - 1], a[i])) { violation("C12", "hint.order_broken", fmt("not strictly increasing: %s", vals_str(a).c_str())); break; }
              if (got < 0 || got >= static_cast<long>(a.size())) violation("C12", "hint.returned_iterator_out_of_range", fmt("returned position %ld of %zu", got, a.size()));
              else if (cmp(a[got], x) || cmp(x, a[got])) violation("C12", "hint.returned_iterator_not_equivalent", fmt("returned iterator designates %d.%u, value is %d", a[got].key, a[got].pay, x.key));
              else if (!a[got].same(*r.first)) violation("C12", "hint.returned_iterator_wrong_element", "returned iterator does not designate the element std::set keeps");
            }
          }
          window([&] { s1->~Set(); });
          window([&] { s2->~Set(); });
          MonScope mm;
          free(s1);
          free(s2);
          ++counters["triples"];
        }
      }
    }
    if (g_cut) { ++n_cut; return; }
    MonScope mm;
    if (EI<E>::kTracked && g_live_lib != 0) violation("C02", "ledger.alive_at_end", "elements alive after the sets were destroyed");
    if (g_blk_live != 0) violation("C06", "alloc.outstanding_at_end", "blocks outstanding after the sets were destroyed");
    if (!g_cut) end_history_ok();
  }
};

}  // namespace vf

int main(int argc, char **argv) {
  using namespace vf;
  Args a;
  a.parse(argc, argv);
  bool hook = install_malloc_hook();
  g_elem_relocatable = EI<Elem>::kRelocatable;
  g_selfswap_window = true;
  static HintGrid<Elem, Cmp, VecT> eng;
  eng.K = a.has("--k9") ? 9 : 6;
  long total = 1L << eng.K;
  long to = a.to < total ? a.to : total;
  long h = a.from;
  for (; h < to; ++h) {
    eng.run_mask(h);
    if (g_cut) break;
  }
  eng.counters["masks_total"] = total;
  eng.write_summary(VF_CFG_NAME, a.seed, a.from, g_cut ? h + 1 : h, a.to, hook);
  if (g_cut) _exit(3);
  return 0;
}
