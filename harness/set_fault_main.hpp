// C09 (sets): fault enumeration over FlatSet / SmallSet operations (basic guarantee).
// The including TU defines Elem, SetT, SetT2 (same family, other comparator), VF_CFG_NAME, VF_SET_N (inline capacity or 0).
// "history" index = operation id.
#pragma once

#include <amc/flatset.hpp>
#include <amc/smallset.hpp>

#include <set>

#include "engine_base.hpp"
#include "gen/ranges.hpp"
#include "mon/cmp.hpp"
#include "vec_common.hpp"

namespace vf {

enum SFOp { SF_INSERT_C = 0, SF_INSERT_M, SF_EMPLACE, SF_INSERT_HINT, SF_EMPLACE_HINT, SF_RANGE, SF_IL, SF_MERGE_SAME, SF_MERGE_OTHER, SF_COPY_CTOR, SF_COPY_ASSIGN, SF_CTOR_RANGE, SF_ASSIGN_IL, SF_N };
inline const char *sfname(int o) {
  static const char *n[] = {"insert(const&)", "insert(&&)", "emplace", "insert(hint,const&)", "emplace_hint", "insert(range)", "insert(il)", "merge(same)",
                            "merge(other-compare)", "ctor(copy)", "operator=(const&)", "ctor(range)", "operator=(il)"};
  return n[o];
}

template <class E, class SetT, class SetT2>
struct SetFaultSweep : EngineBase {
  typedef typename SetT::key_compare C1;
  typedef typename SetT2::key_compare C2;
  C1 c1{kHarnessOrigin};
  C2 c2{kHarnessOrigin};
  unsigned paycnt = 0;
  uint64_t n_scen = 0, n_faulted = 0, n_unreached = 0, n_points = 0;

  template <class S> S *raw_new() { MonScope m; void *p = malloc(sizeof(S)); memset(p, 0xA5, sizeof(S)); return static_cast<S *>(p); }
  template <class S, class C>
  S *make(const C &c, const std::vector<int> &keys) {
    S *s = raw_new<S>();
    window([&] { new (s) S(c); });
    for (int k : keys) { unsigned p = ++paycnt; window([&] { s->emplace(k, p); }); }
    return s;
  }
  template <class S> void unmake(S *s) { if (!s) return; window([&] { s->~S(); }); MonScope m; free(s); }

  template <class F>
  long armed(long k, F &&f) {
    allow_fault = true;
    g_fault_points = 0;
    g_fault_at = k;
    window(f);
    g_fault_at = -1;
    allow_fault = false;
    return g_fault_points;
  }
  template <class F>
  void with_il(const std::vector<Val> &vals, F &&f) {
    switch (vals.size()) {
      case 0: { std::initializer_list<E> il = {}; f(il); break; }
      case 1: { g_monitor_depth++; std::initializer_list<E> il = {E(vals[0].key, vals[0].pay)}; g_monitor_depth--; f(il); g_monitor_depth++; }
        g_monitor_depth--; break;
      case 2: { g_monitor_depth++; std::initializer_list<E> il = {E(vals[0].key, vals[0].pay), E(vals[1].key, vals[1].pay)}; g_monitor_depth--; f(il); g_monitor_depth++; }
        g_monitor_depth--; break;
      default: { g_monitor_depth++; std::initializer_list<E> il = {E(vals[0].key, vals[0].pay), E(vals[1].key, vals[1].pay), E(vals[2].key, vals[2].pay)}; g_monitor_depth--; f(il); g_monitor_depth++; }
        g_monitor_depth--; break;
    }
  }

  // walk with a step cap; every visible element must be alive and not moved-from; returns count or -1
  template <class S, class C>
  long inspect(const S &s, const C &c, const char *what) {
    MonScope m;
    size_t n = static_cast<size_t>(s.size());
    if (n > 100000) { violation("C09", "fault.size_insane", "size() is absurd after the fault"); return -1; }
    std::vector<Val> seen;
    Snap sn;
    auto it = s.begin();
    auto e = s.end();
    size_t steps = 0;
    while (!(it == e)) {
      if (steps == n) { violation("C09", "fault.walk_not_terminating", fmt("%s: begin()..end() does not end within size() steps", what)); return -1; }
      ElemProbe<E>::probe(*it, sn);
      seen.push_back(EI<E>::val(*it));
      sn.vals.push_back(seen.back());
      ++it;
      ++steps;
    }
    if (steps != n) { violation("C09", "fault.size_inconsistent", fmt("%s: size() %zu but %zu elements reachable", what, n, steps)); return -1; }
    for (size_t i = 0; i < seen.size(); ++i)
      for (size_t j = i + 1; j < seen.size(); ++j)
        if (!c(seen[i], seen[j]) && !c(seen[j], seen[i])) { violation("C09", "fault.duplicate_equivalent", fmt("%s holds two equivalent elements after the fault", what)); return -1; }
    return static_cast<long>(n);
  }

  void run_op(int op, long idx) {
    begin_history(0, idx, 0xC09);
    const int N = VF_SET_N;
    std::vector<std::vector<int> > contents;
    contents.push_back(std::vector<int>());
    contents.push_back(std::vector<int>{4});
    contents.push_back(std::vector<int>{2, 8, 4});
    contents.push_back(std::vector<int>{10, 2, 8, 4, 6});
    if (N > 0) {
      std::vector<int> full, over;
      for (int i = 0; i < N; ++i) full.push_back(2 * (N - i));
      for (int i = 0; i < N + 2; ++i) over.push_back(2 * (i + 1));
      contents.push_back(full);
      contents.push_back(over);
      if (N > 1) { std::vector<int> almost(full.begin(), full.end() - 1); contents.push_back(almost); }
    }
    for (size_t ci = 0; ci < contents.size() && !g_cut; ++ci) {
      std::vector<std::vector<int> > argsets;
      if (op <= SF_EMPLACE_HINT) { argsets.push_back({1}); argsets.push_back({4}); argsets.push_back({99}); argsets.push_back({5}); }
      else if (op == SF_RANGE || op == SF_CTOR_RANGE) { argsets.push_back({3}); argsets.push_back({3, 1, 3}); argsets.push_back({9, 7, 5, 4, 11}); argsets.push_back({1, 3, 5, 7, 9, 11, 13, 15, 17, 19, 21, 23, 25, 27, 29, 31, 33, 35}); }
      else if (op == SF_IL || op == SF_ASSIGN_IL) { argsets.push_back({3}); argsets.push_back({5, 4, 1}); }
      else { argsets.push_back({}); argsets.push_back({3}); argsets.push_back({1, 4, 9}); argsets.push_back({12, 3, 5, 7, 9, 11}); }
      for (size_t ai = 0; ai < argsets.size() && !g_cut; ++ai) {
        for (int hint = 0; hint < ((op == SF_INSERT_HINT || op == SF_EMPLACE_HINT) ? 2 : 1) && !g_cut; ++hint) {
          ++n_scen;
          long M = attempt(op, contents[ci], argsets[ai], hint, -1);
          if (M < 0 || g_cut) continue;
          n_points += static_cast<uint64_t>(M);
          for (long k = 0; k < M && !g_cut; ++k) attempt(op, contents[ci], argsets[ai], hint, k);
        }
      }
    }
    if (!g_cut) end_history_ok();
  }

  long attempt(int op, const std::vector<int> &content, const std::vector<int> &arg, int hint, long k) {
    SetT *s = make<SetT>(c1, content);
    SetT *o1 = nullptr;
    SetT2 *o2 = nullptr;
    SetT *np = nullptr;
    if (op == SF_MERGE_SAME || op == SF_COPY_ASSIGN || op == SF_COPY_CTOR) o1 = make<SetT>(c1, arg);
    if (op == SF_MERGE_OTHER) o2 = make<SetT2>(c2, arg);
    if (threw) harness_fail("set fault engine: scenario construction threw");
    {
      MonScope mm;
      std::string st = content.empty() ? "empty" : VF_SET_N == 0 ? "nonempty" : static_cast<int>(content.size()) > VF_SET_N ? "large" : static_cast<int>(content.size()) == VF_SET_N ? "inline-full" : "inline-partial";
      g_cur_sig = std::string(sfname(op)) + "/" + st + "/" + fmt("args=%zu", arg.size());
      g_cur_desc = fmt("content=%zu arg=%zu hint=%d fault_index=%ld", content.size(), arg.size(), hint, k);
      if (k < 0) ++cells[g_cur_sig];
    }
    std::vector<Val> vals;
    for (int a : arg) vals.push_back(EI<E>::norm(Val(a, ++paycnt)));
    Val x = vals.empty() ? EI<E>::norm(Val(1, ++paycnt)) : vals[0];
    E *e;
    { MonScope m; e = new E(x.key, x.pay); }
    long pts = 0;
    switch (op) {
      case SF_INSERT_C: pts = armed(k, [&] { s->insert(*e); }); break;
      case SF_INSERT_M: pts = armed(k, [&] { s->insert(std::move(*e)); }); break;
      case SF_EMPLACE: pts = armed(k, [&] { s->emplace(x.key, x.pay); }); break;
      case SF_INSERT_HINT: pts = armed(k, [&] { s->insert(hint ? s->end() : s->begin(), *e); }); break;
      case SF_EMPLACE_HINT: pts = armed(k, [&] { s->emplace_hint(hint ? s->end() : s->begin(), x.key, x.pay); }); break;
      case SF_RANGE: with_range<E>(vals.size() % 3 == 1 ? RK_PTR : vals.size() % 3 == 2 ? RK_LIST : RK_PROTO, vals, [&](auto f, auto l) { pts = armed(k, [&] { s->insert(f, l); }); }); break;
      case SF_IL: with_il(vals, [&](std::initializer_list<E> il) { pts = armed(k, [&] { s->insert(il); }); }); break;
      case SF_MERGE_SAME: pts = armed(k, [&] { s->merge(*o1); }); break;
      case SF_MERGE_OTHER: pts = armed(k, [&] { s->merge(*o2); }); break;
      case SF_COPY_CTOR: np = raw_new<SetT>(); pts = armed(k, [&] { new (np) SetT(*o1); }); break;
      case SF_COPY_ASSIGN: pts = armed(k, [&] { *s = *o1; }); break;
      case SF_CTOR_RANGE: np = raw_new<SetT>(); with_range<E>(vals.size() % 2 ? RK_PTR : RK_PROTO, vals, [&](auto f, auto l) { pts = armed(k, [&] { new (np) SetT(f, l, c1); }); }); break;
      case SF_ASSIGN_IL: with_il(vals, [&](std::initializer_list<E> il) { pts = armed(k, [&] { *s = il; }); }); break;
    }
    { MonScope mm; delete e; }
    const bool faulted = threw && (threw_fault || threw_what.find("bad_alloc") != std::string::npos);
    if (threw && !faulted) violation("C09", "fault.unexpected_exception", fmt("threw %s", threw_what.c_str()));
    if (k >= 0) { if (faulted) ++n_faulted; else ++n_unreached; }
    else if (threw) violation("C09", "fault.exception_without_fault", "the fault-free run threw");
    if (np) {
      if (threw) { MonScope mm; free(np); np = nullptr; }
    }
    // ----- judge: every container involved is consistent, nothing leaked
    long vis = 0;
    bool ok = true;
    if (!g_cut) { long n = inspect(*s, c1, "the set"); if (n < 0) ok = false; else vis += n; }
    if (!g_cut && o1) { long n = inspect(*o1, c1, "the source set"); if (n < 0) ok = false; else vis += n; }
    if (!g_cut && o2) { long n = inspect(*o2, c2, "the source set"); if (n < 0) ok = false; else vis += n; }
    if (!g_cut && np) { long n = inspect(*np, c1, "the new set"); if (n < 0) ok = false; else vis += n; }
    if (!g_cut && ok && EI<E>::kTracked) {
      // elements that are alive but not visible are tolerated only if the container still destroys them (checked at destruction);
      // visible elements that are not alive were reported by the probe. A *surplus* of live objects that later reappears is caught by the follow-up.
      (void)vis;
    }
    // ----- follow-up: drain completely (a stale inline remainder would reappear), refill, destroy
    if (!g_cut && ok) {
      { MonScope mm; g_cur_sig += "+followup"; }
      size_t guard = static_cast<size_t>(s->size()) + 2;
      while (!g_cut && s->size() != 0 && guard-- > 0) window([&] { s->erase(s->begin()); });
      if (!g_cut) {
        long n = inspect(*s, c1, "the drained set");
        if (n > 0) violation("C09", "fault.elements_reappear", fmt("after erasing every element the set still shows %ld element(s)", n));
      }
      if (!g_cut) {
        unsigned p1 = ++paycnt, p2 = ++paycnt;
        window([&] { s->emplace(7, p1); });
        window([&] { s->emplace(3, p2); });
        if (threw) violation("C09", "fault.unusable_after", "a follow-up operation threw");
        else {
          long n = inspect(*s, c1, "the refilled set");
          if (n >= 0 && n != 2) violation("C09", "fault.unusable_after", fmt("refilled set holds %ld elements, expected 2", n));
        }
      }
    }
    unmake(s);
    unmake(o1);
    unmake(o2);
    unmake(np);
    MonScope mm;
    if (EI<E>::kTracked && g_live_lib != 0) { violation("C09,C02", "ledger.alive_after_destruction", fmt("%ld element object(s) still alive after the containers were destroyed", g_live_lib)); g_live_lib = 0; }
    if (g_blk_live != 0) { violation("C09,C06", "alloc.outstanding_after_destruction", fmt("%ld block(s) outstanding after the containers were destroyed", g_blk_live)); blk_reset(); }
    return pts;
  }
};

}  // namespace vf

int main(int argc, char **argv) {
  using namespace vf;
  Args a;
  a.parse(argc, argv);
  install_malloc_hook();
  g_elem_relocatable = EI<Elem>::kRelocatable;
  g_selfswap_window = true;
  static SetFaultSweep<Elem, SetT, SetT2> eng;
  long total = SF_N;
  long to = a.to < total ? a.to : total;
  long h = a.from;
  for (; h < to; ++h) {
    eng.run_op(static_cast<int>(h), h);
    if (g_cut) break;
  }
  eng.counters["scenarios"] = eng.n_scen;
  eng.counters["fault_points_found"] = eng.n_points;
  eng.counters["faulted_executions"] = eng.n_faulted;
  eng.counters["armed_but_not_reached"] = eng.n_unreached;
  eng.write_summary(VF_CFG_NAME, a.seed, a.from, g_cut ? h + 1 : h, a.to, true);
  if (g_cut) _exit(3);
  return 0;
}
