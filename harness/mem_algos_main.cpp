// C15: amc:: memory algorithms equal the standard ones, with clean-up on throw.  C++11 compatible: built at every -std level.
// "history" index = algorithm id.
#include <amc/memory.hpp>

#include <limits>

#include <iterator>
#include <memory>
#include <new>
#include <vector>

#include "engine_base.hpp"

#ifndef VF_CFG_NAME
#define VF_CFG_NAME "mem_algos"
#endif

namespace vf {

// non-owning iterator over every second slot of an array, with a chosen category
template <class E, class Cat>
struct StrideIt {
  typedef Cat iterator_category;
  typedef E value_type;
  typedef ptrdiff_t difference_type;
  typedef E *pointer;
  typedef E &reference;
  E *p;
  StrideIt() : p(nullptr) {}
  explicit StrideIt(E *q) : p(q) {}
  reference operator*() const { return *p; }
  pointer operator->() const { return p; }
  StrideIt &operator++() { p += 2; return *this; }
  StrideIt operator++(int) { StrideIt t(*this); p += 2; return t; }
  StrideIt &operator--() { p -= 2; return *this; }
  StrideIt operator--(int) { StrideIt t(*this); p -= 2; return t; }
  StrideIt &operator+=(difference_type d) { p += 2 * d; return *this; }
  StrideIt &operator-=(difference_type d) { p -= 2 * d; return *this; }
  StrideIt operator+(difference_type d) const { return StrideIt(p + 2 * d); }
  StrideIt operator-(difference_type d) const { return StrideIt(p - 2 * d); }
  difference_type operator-(const StrideIt &o) const { return (p - o.p) / 2; }
  reference operator[](difference_type d) const { return p[2 * d]; }
  bool operator==(const StrideIt &o) const { return p == o.p; }
  bool operator!=(const StrideIt &o) const { return p != o.p; }
  bool operator<(const StrideIt &o) const { return p < o.p; }
  bool operator>(const StrideIt &o) const { return p > o.p; }
  bool operator<=(const StrideIt &o) const { return p <= o.p; }
  bool operator>=(const StrideIt &o) const { return p >= o.p; }
};

enum Algo {
  A_CONSTRUCT_AT = 0, A_DESTROY_AT, A_DESTROY, A_DESTROY_N, A_UCOPY, A_UCOPY_N, A_UMOVE, A_UMOVE_N, A_UDEFAULT, A_UDEFAULT_N, A_UVALUE, A_UVALUE_N,
  A_URELOC, A_URELOC_N, A_RELOC_AT, A_OVERLAP, A_DESTROY_AT_ARRAY, A_N
};
inline const char *algoname(int a) {
  static const char *n[] = {"construct_at", "destroy_at", "destroy", "destroy_n", "uninitialized_copy", "uninitialized_copy_n", "uninitialized_move",
                            "uninitialized_move_n", "uninitialized_default_construct", "uninitialized_default_construct_n", "uninitialized_value_construct",
                            "uninitialized_value_construct_n", "uninitialized_relocate", "uninitialized_relocate_n", "relocate_at", "relocate(overlapping)",
                            "destroy_at(array)"};
  return n[a];
}
enum SrcKind { S_PTR = 0, S_RA, S_BIDIR, S_FWD, S_MOVEIT, S_N };
inline const char *srcname(int k) { static const char *n[] = {"pointer", "random_access", "bidirectional", "forward", "move_iterator"}; return n[k]; }

template <class T> struct TI;   // test-type info: make / value / tracked
template <> struct TI<int> {
  static const bool tracked = false, has_default_init_value = false;
  static const char *name() { return "int"; }
  static void make(int *p, int k, unsigned) { *p = k; }
  static int *construct_args(int *d, int k, unsigned) { return amc::construct_at(d, k); }
  static Val val(const int &v) { return Val(v, 0); }
  static Val norm(Val v) { return Val(v.key, 0); }
  static bool relocatable() { return true; }
  static bool live(const int &) { return true; }
};
template <> struct TI<TC4> {
  static const bool tracked = false;
  static const char *name() { return "TC4"; }
  static void make(TC4 *p, int k, unsigned pay) { new (p) TC4(k, pay); }
  static TC4 *construct_args(TC4 *d, int k, unsigned pay) { return amc::construct_at(d, k, pay); }
  static Val val(const TC4 &v) { return EI<TC4>::val(v); }
  static Val norm(Val v) { return EI<TC4>::norm(v); }
  static bool relocatable() { return true; }
};
// a trivial type whose value-initialised representation is not all-zero bits (a null pointer to data member is -1 on this ABI):
// value-initialisation must produce T(), not zeroed bytes. val(): key 0 = null member pointer (and b == 0), key k = designates member k.
struct PMemHost { int m1, m2, m3; };
struct PMem {
  int PMemHost::*p;
  int b;
};
inline int pmem_key(const PMem &v) { return v.p == nullptr ? 0 : v.p == &PMemHost::m1 ? 1 : v.p == &PMemHost::m2 ? 2 : 3; }
template <> struct TI<PMem> {
  static const bool tracked = false;
  static const char *name() { return "PMem"; }
  static void make(PMem *p, int k, unsigned pay) { p->p = (k % 4) == 0 ? nullptr : (k % 4) == 1 ? &PMemHost::m1 : (k % 4) == 2 ? &PMemHost::m2 : &PMemHost::m3; p->b = static_cast<int>(pay); }
  static PMem *construct_args(PMem *d, int k, unsigned pay) { PMem t; make(&t, k, pay); return amc::construct_at(d, t); }
  static Val val(const PMem &v) { return Val(pmem_key(v), static_cast<unsigned>(v.b)); }
  static Val norm(Val v) { return Val(v.key % 4, v.pay); }
  static bool relocatable() { return true; }
};
// trivially default constructible, but with a user-provided copy assignment: "value-constructing" it by assigning T() onto raw storage runs an
// assignment operator on an object that was never constructed (the assignment leaves a trace: it adds 1000)
struct TDCA {
  int v;
  int w;
  TDCA() = default;
  TDCA(const TDCA &) = default;
  TDCA &operator=(const TDCA &o) { v = o.v + 1000; w = o.w; return *this; }
};
template <> struct TI<TDCA> {
  static const bool tracked = false;
  static const char *name() { return "TDCA"; }
  static void make(TDCA *p, int k, unsigned pay) { ::new (static_cast<void *>(p)) TDCA(); p->v = k; p->w = static_cast<int>(pay); }
  static TDCA *construct_args(TDCA *d, int k, unsigned pay) { TDCA t; t.v = k; t.w = static_cast<int>(pay); return amc::construct_at(d, t); }
  static Val val(const TDCA &x) { return Val(x.v, static_cast<unsigned>(x.w)); }
  static Val norm(Val v) { return v; }
  static bool relocatable() { return false; }
};
// implicit, non trivial default constructor (because of a member) and scalar members without initialiser: T() zero-initialises them first,
// default-initialisation (new T without parentheses) leaves them indeterminate
struct HasCtorMember { int z; HasCtorMember() : z(7) {} };
struct NTDef {
  int id;
  unsigned tag;
  HasCtorMember m;
};
template <> struct TI<NTDef> {
  static const bool tracked = false;
  static const char *name() { return "NTDef"; }
  static void make(NTDef *p, int k, unsigned pay) { ::new (static_cast<void *>(p)) NTDef(); p->id = k; p->tag = pay; }
  static NTDef *construct_args(NTDef *d, int k, unsigned pay) { NTDef t = NTDef(); t.id = k; t.tag = pay; return amc::construct_at(d, t); }
  static Val val(const NTDef &x) { return x.m.z == 7 ? Val(x.id, x.tag) : Val(-7, 0u); }
  static Val norm(Val v) { return v; }
  static bool relocatable() { return false; }
};
template <int K> struct TI<Tracked<K> > {
  static const bool tracked = true;
  static const char *name() { return Tracked<K>::kname(); }
  static void make(Tracked<K> *p, int k, unsigned pay) { new (p) Tracked<K>(k, pay); }
  static Tracked<K> *construct_args(Tracked<K> *d, int k, unsigned pay) { return amc::construct_at(d, k, pay); }
  static Val val(const Tracked<K> &v) { return Val(v.key, v.pay); }
  static Val norm(Val v) { return v; }
  static bool relocatable() { return K == 0; }
};

struct AlgoEngine : EngineBase {
  uint64_t n_cells = 0, n_faulted = 0, n_points = 0;
  unsigned paycnt = 0;
  static const int kMaxLen = 5;

  template <class F>
  long armed(long k, F f) {
    allow_fault = true;
    g_fault_points = 0;
    g_fault_at = k;
    window(f);
    g_fault_at = -1;
    allow_fault = false;
    return g_fault_points;
  }

  // raw arena with guard bytes
  template <class T>
  struct Arena {
    unsigned char *raw;
    T *slots;     // 2*(kMaxLen+2) slots (stride iterators use every second one)
    size_t n;
    Arena() {
      MonScope m;
      n = 2 * (kMaxLen + 3);
      raw = static_cast<unsigned char *>(malloc(sizeof(T) * n + 64));
      memset(raw, 0xE7, sizeof(T) * n + 64);
      slots = reinterpret_cast<T *>(raw + 32);
    }
    ~Arena() { MonScope m; free(raw); }
    bool guards_ok(size_t first_untouched_after) const {
      for (int i = 0; i < 32; ++i) if (raw[i] != 0xE7) return false;
      const unsigned char *e = reinterpret_cast<const unsigned char *>(slots + first_untouched_after);
      const unsigned char *end = raw + sizeof(T) * n + 64;
      for (; e < end; ++e) if (*e != 0xE7) return false;
      return true;
    }
  };

  void cellsig(int algo, const char *tname, int src, int len, long k) {
    MonScope m;
    g_cur_sig = std::string(algoname(algo)) + "/" + tname + "/" + srcname(src) + (len == 0 ? ",empty" : ",nonempty");
    g_cur_desc = fmt("len=%d fault_index=%ld", len, k);
    if (k < 0) { ++cells[g_cur_sig]; ++n_cells; }
  }

  // ---------------------------------------------------------------- input-range algorithms (copy / move / relocate families)
  // SrcIt construction helpers
  template <class T> static T *mk(T *base, int, T **) { return base; }
  template <class T, class Cat> static StrideIt<T, Cat> mk(T *base, int, StrideIt<T, Cat> *) { return StrideIt<T, Cat>(base); }
  template <class T> static std::move_iterator<T *> mk(T *base, int, std::move_iterator<T *> *) { return std::move_iterator<T *>(base); }
  template <class T> static T *raw_of(T *it) { return it; }
  template <class T, class Cat> static T *raw_of(StrideIt<T, Cat> it) { return it.p; }
  template <class T> static T *raw_of(std::move_iterator<T *> it) { return it.base(); }
  template <class It> static int stride_of(It *) { return 2; }
  template <class T> static int stride_of(T **) { return 1; }
  template <class T> static int stride_of(std::move_iterator<T *> *) { return 1; }

  // relocation is not defined for move_iterator sources (never called for them, must merely compile)
  template <class It, class T> static T *reloc_range(It first, It last, T *d) { return amc::uninitialized_relocate(first, last, d); }
  template <class T> static T *reloc_range(std::move_iterator<T *>, std::move_iterator<T *>, T *d) { return d; }
  template <class It, class T> static std::pair<It, T *> reloc_n(It first, int n, T *d) { return amc::uninitialized_relocate_n(first, n, d); }
  template <class T> static std::pair<std::move_iterator<T *>, T *> reloc_n(std::move_iterator<T *> f, int, T *d) { return std::pair<std::move_iterator<T *>, T *>(f, d); }

  // family: 0 copy, 1 copy_n, 2 move, 3 move_n, 4 relocate, 5 relocate_n
  template <class T, class It>
  long range_attempt(int algo, int family, int srck, int len, long k) {
    cellsig(algo, TI<T>::name(), srck, len, k);
    Arena<T> src, dst;
    const int st = stride_of(static_cast<It *>(nullptr));
    std::vector<Val> vals;
    {
      MonScope m;
      for (int i = 0; i < len; ++i) { Val v = TI<T>::norm(Val(i + 1, ++paycnt)); vals.push_back(v); TI<T>::make(src.slots + i * st, v.key, v.pay); }
    }
    It first = mk(src.slots, 0, static_cast<It *>(nullptr));
    It last = mk(src.slots + len * st, 0, static_cast<It *>(nullptr));
    T *d = dst.slots + 1;  // slot 0 is a guard slot before the destination range
    T *ret_d = nullptr;
    T *ret_in = nullptr;
    bool has_in = false;
    const long live_lib0 = g_live_lib;
    long pts = 0;
    struct Call {
      int family; It first, last; int len; T *d; T **ret_d; T **ret_in; bool *has_in;
      void operator()() const {
        switch (family) {
          case 0: *ret_d = amc::uninitialized_copy(first, last, d); break;
          case 1: *ret_d = amc::uninitialized_copy_n(first, len, d); break;
          case 2: *ret_d = amc::uninitialized_move(first, last, d); break;
          case 3: { std::pair<It, T *> r = amc::uninitialized_move_n(first, len, d); *ret_d = r.second; *ret_in = raw_of(r.first); *has_in = true; break; }
          case 4: *ret_d = reloc_range(first, last, d); break;
          default: { std::pair<It, T *> r = reloc_n(first, len, d); *ret_d = r.second; *ret_in = raw_of(r.first); *has_in = true; break; }
        }
      }
    };
    Call c = {family, first, last, len, d, &ret_d, &ret_in, &has_in};
    pts = armed(k, c);
    const bool faulted = threw && (threw_fault || threw_what.find("bad_alloc") != std::string::npos);
    const bool reloc = family >= 4;
    MonScope m;
    if (threw && !faulted) violation("C15", "algo.unexpected_exception", fmt("%s threw %s", algoname(algo), threw_what.c_str()));
    if (k >= 0 && faulted) ++n_faulted;
    if (k >= 0 && !threw) violation("C15", "algo.exception_swallowed", fmt("the constructor fault #%ld was not propagated", k));
    if (k < 0 && threw) violation("C15", "algo.exception_without_fault", "the fault-free run threw");
    if (!threw) {
      // same objects, same return values, same iterator advance as the standard algorithm
      if (ret_d != d + len) violation("C15", "algo.returned_iterator", fmt("%s returned dest+%ld, the standard algorithm returns dest+%d", algoname(algo), static_cast<long>(ret_d - d), len));
      if (has_in && ret_in != src.slots + len * st) violation("C15", "algo.input_iterator_advance", fmt("%s advanced the input iterator by %ld elements, expected %d", algoname(algo), static_cast<long>((ret_in - src.slots) / st), len));
      for (int i = 0; i < len; ++i) {
        Val got = TI<T>::val(d[i]);
        if (!got.same(vals[i])) { violation("C15", "algo.constructed_value", fmt("%s: destination[%d] = %d.%u, expected %d.%u", algoname(algo), i, got.key, got.pay, vals[i].key, vals[i].pay)); break; }
      }
      if (TI<T>::tracked) {
        long made = g_live_lib - live_lib0;
        long want = (reloc && TI<T>::relocatable()) ? 0 : len;  // a bitwise relocation creates no new identity
        if (made != want) violation("C15", "algo.object_count", fmt("%s over %d elements created %ld objects (expected %ld)", algoname(algo), len, made, want));
        check_sources<T>(src.slots, st, len, reloc ? 2 : ((family >= 2 || srck == S_MOVEIT) ? 1 : 0), algo);
      }
    } else {
      // every object the algorithm created is destroyed; the sources of a relocate stay alive; nothing else is touched
      if (TI<T>::tracked) {
        if (g_live_lib != live_lib0) violation("C15", "algo.cleanup_on_throw", fmt("%s: %ld object(s) created by the algorithm are still alive after the exception", algoname(algo), g_live_lib - live_lib0));
        check_sources<T>(src.slots, st, len, reloc ? 3 : ((family >= 2 || srck == S_MOVEIT) ? 1 : 0), algo);
      }
    }
    // guard slots around the destination range
    {
      const unsigned char *g0 = reinterpret_cast<const unsigned char *>(dst.slots);
      for (size_t i = 0; i < sizeof(T); ++i) if (g0[i] != 0xE7) { violation("C15", "algo.guard_before_destination", "the slot before the destination range was written"); break; }
      const unsigned char *g1 = reinterpret_cast<const unsigned char *>(d + len);
      for (size_t i = 0; i < sizeof(T); ++i) if (g1[i] != 0xE7) { violation("C15", "algo.guard_after_destination", "the slot after the destination range was written"); break; }
    }
    // clean up
    if (!threw) destroy_all(d, 1, len);
    if (!(reloc && !threw)) destroy_all(src.slots, st, len);  // relocated sources are gone
    if (TI<T>::tracked && (g_live_lib != 0 || g_live_harness != 0)) {
      if (!g_cut) violation("C15", "algo.double_or_missing_destroy", fmt("after clean-up %ld library / %ld harness objects remain (sources destroyed twice or not at all)", g_live_lib, g_live_harness));
      g_live_lib = 0;
      g_live_harness = 0;
    }
    return pts;
  }

  // ---------------------------------------------------------------- heterogeneous ranges: the destination type D is constructed from the source type S
  // (as the standard algorithms allow). The constructor really called is D(S&&) / D(const S&), which may throw whatever S's own move does;
  // a relocation between different types can never be a byte copy.
  template <class S, class D, class It>
  long hetero_attempt(int algo, int family, int srck, int len, long k) {
    cellsig(algo, (std::string(TI<S>::name()) + "->" + TI<D>::name()).c_str(), srck, len, k);
    Arena<S> src;
    Arena<D> dst;
    const int st = stride_of(static_cast<It *>(nullptr));
    std::vector<Val> vals;
    {
      MonScope m;
      for (int i = 0; i < len; ++i) { Val v(i + 1, ++paycnt); vals.push_back(v); TI<S>::make(src.slots + i * st, v.key, v.pay); }
    }
    It first = mk(src.slots, 0, static_cast<It *>(nullptr));
    It last = mk(src.slots + len * st, 0, static_cast<It *>(nullptr));
    D *d = dst.slots + 1;
    D *ret_d = nullptr;
    S *ret_in = nullptr;
    bool has_in = false;
    const long live_lib0 = g_live_lib, harness0 = g_live_harness;
    struct Call {
      int family; It first, last; int len; D *d; D **ret_d; S **ret_in; bool *has_in;
      void operator()() const {
        switch (family) {
          case 0: *ret_d = amc::uninitialized_copy(first, last, d); break;
          case 1: *ret_d = amc::uninitialized_copy_n(first, len, d); break;
          case 2: *ret_d = amc::uninitialized_move(first, last, d); break;
          case 3: { std::pair<It, D *> r = amc::uninitialized_move_n(first, len, d); *ret_d = r.second; *ret_in = raw_of(r.first); *has_in = true; break; }
#ifdef VF_HETERO_RELOC  // only the optional binary instantiates a relocation between different types
          case 4: *ret_d = amc::uninitialized_relocate(first, last, d); break;
          default: { std::pair<It, D *> r = amc::uninitialized_relocate_n(first, len, d); *ret_d = r.second; *ret_in = raw_of(r.first); *has_in = true; break; }
#else
          default: break;
#endif
        }
      }
    };
    Call c = {family, first, last, len, d, &ret_d, &ret_in, &has_in};
    long pts = armed(k, c);
    const bool faulted = threw && threw_fault;
    const bool reloc = family >= 4;
    MonScope m;
    if (threw && !faulted) violation("C15", "algo.unexpected_exception", fmt("%s (converting) threw %s", algoname(algo), threw_what.c_str()));
    if (k >= 0 && faulted) ++n_faulted;
    if (k >= 0 && !threw) violation("C15", "algo.exception_swallowed", fmt("the constructor fault #%ld was not propagated", k));
    if (!threw) {
      if (ret_d != d + len) violation("C15", "algo.returned_iterator", fmt("%s (converting) returned dest+%ld, expected dest+%d", algoname(algo), static_cast<long>(ret_d - d), len));
      if (has_in && ret_in != src.slots + len * st) violation("C15", "algo.input_iterator_advance", fmt("%s (converting) advanced the input iterator by %ld elements, expected %d", algoname(algo), static_cast<long>((ret_in - src.slots) / st), len));
      for (int i = 0; i < len; ++i) {
        Val got = TI<D>::val(d[i]);
        if (!got.same(vals[i])) { violation("C15", "algo.constructed_value", fmt("%s (converting): destination[%d] = %d.%u, expected %d.%u", algoname(algo), i, got.key, got.pay, vals[i].key, vals[i].pay)); break; }
      }
      if (g_live_lib - live_lib0 != len) violation("C15", "algo.object_count", fmt("%s (converting) over %d elements created %ld objects", algoname(algo), len, g_live_lib - live_lib0));
      if (reloc) { if (harness0 - g_live_harness != len) violation("C15", "algo.relocate_source_alive", fmt("%s between different types: %ld of %d sources were destroyed", algoname(algo), harness0 - g_live_harness, len)); }
      else check_sources<S>(src.slots, st, len, family >= 2 ? 1 : 0, algo);
    } else {
      if (g_live_lib != live_lib0) violation("C15", "algo.cleanup_on_throw", fmt("%s (converting): %ld object(s) created by the algorithm are still alive after the exception", algoname(algo), g_live_lib - live_lib0));
      check_sources<S>(src.slots, st, len, reloc ? 3 : (family >= 2 ? 1 : 0), algo);
    }
    {
      const unsigned char *g0 = reinterpret_cast<const unsigned char *>(dst.slots);
      for (size_t i = 0; i < sizeof(D); ++i) if (g0[i] != 0xE7) { violation("C15", "algo.guard_before_destination", "the slot before the destination range was written"); break; }
      const unsigned char *g1 = reinterpret_cast<const unsigned char *>(d + len);
      for (size_t i = 0; i < sizeof(D); ++i) if (g1[i] != 0xE7) { violation("C15", "algo.guard_after_destination", "the slot after the destination range was written"); break; }
    }
    if (!threw) destroy_all(d, 1, len);
    if (!(reloc && !threw)) destroy_all(src.slots, st, len);
    if (g_live_lib != 0 || g_live_harness != 0) {
      if (!g_cut) violation("C15", "algo.double_or_missing_destroy", fmt("after clean-up %ld library / %ld harness objects remain (converting %s)", g_live_lib, g_live_harness, algoname(algo)));
      g_live_lib = 0;
      g_live_harness = 0;
    }
    return pts;
  }
  template <class S, class D, class It>
  void hetero_cells(int algo, int family, int srck) {
    for (int len = 0; len <= kMaxLen && !g_cut; ++len) {
      long M = hetero_attempt<S, D, It>(algo, family, srck, len, -1);
      n_points += static_cast<uint64_t>(M);
      for (long k = 0; k < M && !g_cut; ++k) hetero_attempt<S, D, It>(algo, family, srck, len, k);
    }
  }
  template <class S, class D>
  void hetero_family(int algo, int family) {
    hetero_cells<S, D, S *>(algo, family, S_PTR);
    if (!g_cut) hetero_cells<S, D, StrideIt<S, std::random_access_iterator_tag> >(algo, family, S_RA);
    if (!g_cut) hetero_cells<S, D, StrideIt<S, std::forward_iterator_tag> >(algo, family, S_FWD);
  }

  // mode: 0 sources intact, 1 sources alive (maybe moved-from), 2 sources must be gone (relocated), 3 sources must all be alive (relocate threw)
  template <class T> void check_sources(T *, int, int, int, int, typename std::enable_if<!TI<T>::tracked>::type * = nullptr) {}
  template <class T>
  void check_sources(T *s, int st, int len, int mode, int algo, typename std::enable_if<TI<T>::tracked>::type * = nullptr) {
    for (int i = 0; i < len; ++i) {
      const T &e = s[i * st];
      bool alive = g_obj[e.serial].live && (e.flags & kMagicMask) == kLiveMagic;
      if (mode == 2) {
        if (!TI<T>::relocatable() && alive) { violation("C15", "algo.relocate_source_alive", fmt("%s: source[%d] was not destroyed", algoname(algo), i)); break; }
      } else {
        if (!alive) { violation("C15", "algo.source_destroyed", fmt("%s: source[%d] is no longer alive", algoname(algo), i)); break; }
        if (mode == 0 && (e.flags & kMovedFrom)) { violation("C15", "algo.source_moved_from", fmt("%s: source[%d] of a copy was moved from", algoname(algo), i)); break; }
      }
    }
  }
  template <class T> void destroy_all(T *, int, int, typename std::enable_if<!TI<T>::tracked>::type * = nullptr) {}
  template <class T>
  void destroy_all(T *s, int st, int len, typename std::enable_if<TI<T>::tracked>::type * = nullptr) {
    for (int i = 0; i < len; ++i) {
      T &e = s[i * st];
      if (e.serial < g_next_serial && g_obj[e.serial].live && (e.flags & kMagicMask) == kLiveMagic && (TI<T>::relocatable() || g_obj[e.serial].addr == &e)) e.~T();
    }
  }

  template <class T, class It>
  void range_cells(int algo, int family, int srck) {
    for (int len = 0; len <= kMaxLen && !g_cut; ++len) {
      long M = range_attempt<T, It>(algo, family, srck, len, -1);
      n_points += static_cast<uint64_t>(M);
      for (long k = 0; k < M && !g_cut; ++k) range_attempt<T, It>(algo, family, srck, len, k);
    }
  }
  template <class T>
  void range_family(int algo, int family) {
    range_cells<T, T *>(algo, family, S_PTR);
    if (!g_cut) range_cells<T, StrideIt<T, std::random_access_iterator_tag> >(algo, family, S_RA);
    if (!g_cut) range_cells<T, StrideIt<T, std::bidirectional_iterator_tag> >(algo, family, S_BIDIR);
    if (!g_cut) range_cells<T, StrideIt<T, std::forward_iterator_tag> >(algo, family, S_FWD);
    if (!g_cut && family < 4) range_cells<T, std::move_iterator<T *> >(algo, family, S_MOVEIT);
  }
  template <class T>
  void range_family_copyable(int algo, int family) { range_family<T>(algo, family); }

  // ---------------------------------------------------------------- default / value construction
  // family: 0 default(first,last) 1 default_n 2 value(first,last) 3 value_n
  template <class T, class It>
  long ctor_attempt(int algo, int family, int srck, int len, long k) {
    cellsig(algo, TI<T>::name(), srck, len, k);
    Arena<T> dst;
    const int st = stride_of(static_cast<It *>(nullptr));
    T *d = dst.slots + 2;
    It first = mk(d, 0, static_cast<It *>(nullptr));
    It last = mk(d + len * st, 0, static_cast<It *>(nullptr));
    T *ret = nullptr;
    bool has_ret = false;
    const long live0 = g_live_lib;
    struct Call {
      int family; It first, last; int len; T **ret; bool *has_ret;
      void operator()() const {
        switch (family) {
          case 0: amc::uninitialized_default_construct(first, last); break;
          case 1: *ret = raw_of(amc::uninitialized_default_construct_n(first, len)); *has_ret = true; break;
          case 2: amc::uninitialized_value_construct(first, last); break;
          default: *ret = raw_of(amc::uninitialized_value_construct_n(first, len)); *has_ret = true; break;
        }
      }
    };
    Call c = {family, first, last, len, &ret, &has_ret};
    long pts = armed(k, c);
    const bool faulted = threw && threw_fault;
    MonScope m;
    if (threw && !faulted) violation("C15", "algo.unexpected_exception", fmt("%s threw %s", algoname(algo), threw_what.c_str()));
    if (k >= 0 && faulted) ++n_faulted;
    if (k >= 0 && !threw) violation("C15", "algo.exception_swallowed", "the constructor fault was not propagated");
    if (!threw) {
      if (has_ret && ret != d + len * st) violation("C15", "algo.returned_iterator", fmt("%s returned first+%ld, expected first+%d", algoname(algo), static_cast<long>((ret - d) / st), len));
      if (TI<T>::tracked && g_live_lib - live0 != len) violation("C15", "algo.object_count", fmt("%s over %d slots created %ld objects", algoname(algo), len, g_live_lib - live0));
      if (family >= 2 || TI<T>::tracked)
        for (int i = 0; i < len; ++i) {
          Val got = TI<T>::val(d[i * st]);
          if (got.key != 0 || got.pay != 0) { violation("C15", "algo.constructed_value", fmt("%s: slot %d holds %d.%u instead of a value-initialised object", algoname(algo), i, got.key, got.pay)); break; }
        }
      destroy_all(d, st, len);
    } else if (TI<T>::tracked && g_live_lib != live0) {
      violation("C15", "algo.cleanup_on_throw", fmt("%s: %ld object(s) created by the algorithm are still alive after the exception", algoname(algo), g_live_lib - live0));
    }
    const unsigned char *g0 = reinterpret_cast<const unsigned char *>(d - 1);
    for (size_t i = 0; i < sizeof(T); ++i) if (g0[i] != 0xE7) { violation("C15", "algo.guard_before_destination", "the slot before the range was written"); break; }
    const unsigned char *g1 = reinterpret_cast<const unsigned char *>(d + len);
    for (size_t i = 0; i < sizeof(T); ++i) if (st == 1 && g1[i] != 0xE7) { violation("C15", "algo.guard_after_destination", "the slot after the range was written"); break; }
    g_live_lib = 0;
    return pts;
  }
  template <class T, class It>
  void ctor_cells(int algo, int family, int srck) {
    for (int len = 0; len <= kMaxLen && !g_cut; ++len) {
      long M = ctor_attempt<T, It>(algo, family, srck, len, -1);
      n_points += static_cast<uint64_t>(M);
      for (long k = 0; k < M && !g_cut; ++k) ctor_attempt<T, It>(algo, family, srck, len, k);
    }
  }
  template <class T>
  void ctor_family(int algo, int family) {
    ctor_cells<T, T *>(algo, family, S_PTR);
    if (!g_cut) ctor_cells<T, StrideIt<T, std::random_access_iterator_tag> >(algo, family, S_RA);
    if (!g_cut) ctor_cells<T, StrideIt<T, std::bidirectional_iterator_tag> >(algo, family, S_BIDIR);
    if (!g_cut) ctor_cells<T, StrideIt<T, std::forward_iterator_tag> >(algo, family, S_FWD);
  }

  // ---------------------------------------------------------------- destroy family
  template <class T, class It>
  void destroy_cells(int algo, int srck) {
    for (int len = 0; len <= kMaxLen && !g_cut; ++len) {
      cellsig(algo, TI<T>::name(), srck, len, -1);
      Arena<T> a;
      const int st = stride_of(static_cast<It *>(nullptr));
      T *d = a.slots + 2;
      { MonScope m; for (int i = 0; i < len + 1; ++i) TI<T>::make(d + i * st, i + 1, ++paycnt); }  // one more element than destroyed: it must survive
      // library-made objects would be counted as g_live_lib; these are harness-made
      It first = mk(d, 0, static_cast<It *>(nullptr));
      It last = mk(d + len * st, 0, static_cast<It *>(nullptr));
      T *ret = nullptr;
      bool has_ret = false;
      const long h0 = g_live_harness;
      struct Call {
        int algo; It first, last; int len; T **ret; bool *has_ret; T *d;
        void operator()() const {
          if (algo == A_DESTROY) amc::destroy(first, last);
          else if (algo == A_DESTROY_N) { *ret = raw_of(amc::destroy_n(first, len)); *has_ret = true; }
          else if (len > 0) amc::destroy_at(d);
        }
      };
      Call c = {algo, first, last, len, &ret, &has_ret, d};
      window(c);
      MonScope m;
      if (threw) violation("C15", "algo.unexpected_exception", "destroy threw");
      int expect_destroyed = algo == A_DESTROY_AT ? (len > 0 ? 1 : 0) : len;
      if (has_ret && ret != d + len * st) violation("C15", "algo.returned_iterator", fmt("destroy_n returned first+%ld, expected first+%d", static_cast<long>((ret - d) / st), len));
      if (TI<T>::tracked && h0 - g_live_harness != expect_destroyed) violation("C15", "algo.destroy_count", fmt("%s destroyed %ld objects, expected %d", algoname(algo), h0 - g_live_harness, expect_destroyed));
      destroy_all(d, st, len + 1);
      if (TI<T>::tracked && (g_live_harness != 0 || g_live_lib != 0)) { violation("C15", "algo.double_or_missing_destroy", "objects remain after clean-up"); g_live_harness = 0; g_live_lib = 0; }
    }
  }
  template <class T>
  void destroy_family(int algo) {
    destroy_cells<T, T *>(algo, S_PTR);
    if (algo == A_DESTROY_AT) return;
    if (!g_cut) destroy_cells<T, StrideIt<T, std::random_access_iterator_tag> >(algo, S_RA);
    if (!g_cut) destroy_cells<T, StrideIt<T, std::bidirectional_iterator_tag> >(algo, S_BIDIR);
    if (!g_cut) destroy_cells<T, StrideIt<T, std::forward_iterator_tag> >(algo, S_FWD);
  }

  // ---------------------------------------------------------------- construct_at / relocate_at
  template <class T>
  long construct_attempt(int form, long k) {
    cellsig(A_CONSTRUCT_AT, TI<T>::name(), S_PTR, form, k);
    Arena<T> a, srcA;
    T *d = a.slots + 1;
    T *src = srcA.slots;
    Val v = TI<T>::norm(Val(7, ++paycnt));
    { MonScope m; TI<T>::make(src, v.key, v.pay); }
    T *ret = nullptr;
    const long live0 = g_live_lib;
    struct Call {
      int form; T *d, *src; int key; unsigned pay; T **ret;
      void operator()() const {
        if (form == 0) *ret = TI<T>::construct_args(d, key, pay);            // from arguments
        else if (form == 1) *ret = amc::construct_at(d, *static_cast<const T *>(src));  // copy
        else *ret = amc::construct_at(d, std::move(*src));                // move
      }
    };
    Call c = {form, d, src, v.key, v.pay, &ret};
    long pts = armed(k, c);
    MonScope m;
    if (k >= 0 && threw && threw_fault) ++n_faulted;
    if (k >= 0 && !threw) violation("C15", "algo.exception_swallowed", "the constructor fault was not propagated");
    if (threw && !threw_fault) violation("C15", "algo.unexpected_exception", "construct_at threw");
    if (!threw) {
      if (ret != d) violation("C15", "algo.returned_iterator", "construct_at did not return the address of the new object");
      Val got = TI<T>::val(*d);
      if (!got.same(v)) violation("C15", "algo.constructed_value", fmt("construct_at built %d.%u, expected %d.%u", got.key, got.pay, v.key, v.pay));
      if (TI<T>::tracked && g_live_lib - live0 != 1) violation("C15", "algo.object_count", "construct_at did not create exactly one object");
      destroy_all(d, 1, 1);
    } else if (TI<T>::tracked && g_live_lib != live0) violation("C15", "algo.cleanup_on_throw", "an object remains after construct_at threw");
    destroy_all(src, 1, 1);
    g_live_lib = 0;
    g_live_harness = 0;
    return pts;
  }
  // The count argument of the _n algorithms in the types the containers use for it (narrow unsigned and signed size types): the returned
  // iterators must be first + count and dest + count, and exactly count elements must arrive, as for std::uninitialized_copy_n / _move_n.
  // Trivially copyable elements (no ledger needed): the block-copy implementations are the ones that compute with the count.
  template <class T, class C>
  void count_cells(const char *tname, const char *cname, const std::vector<long> &counts) {
    for (size_t ci = 0; ci < counts.size() && !g_cut; ++ci) {
      const long n = counts[ci];
      if (n > static_cast<long>(std::numeric_limits<C>::max())) continue;
      for (int fam = 0; fam < 3 && !g_cut; ++fam) {
        { MonScope m; g_cur_sig = std::string(fam == 0 ? "uninitialized_copy_n" : fam == 1 ? "uninitialized_move_n" : "uninitialized_relocate_n") + "/" + tname + "/count type " + cname; g_cur_desc = fmt("count=%ld", n); ++cells[g_cur_sig]; }
        T *src, *dst;
        { MonScope m; src = static_cast<T *>(malloc(sizeof(T) * static_cast<size_t>(n + 2))); dst = static_cast<T *>(malloc(sizeof(T) * static_cast<size_t>(n + 2))); for (long i = 0; i < n + 2; ++i) { new (src + i) T(static_cast<T>(i % 97 + 1)); new (dst + i) T(static_cast<T>(0)); } }
        const C cnt = static_cast<C>(n);
        T *rin = nullptr, *rd = nullptr;
        bool has_in = false;
        if (fam == 0) window([&] { rd = amc::uninitialized_copy_n(src, cnt, dst); });
        else if (fam == 1) window([&] { std::pair<T *, T *> r = amc::uninitialized_move_n(src, cnt, dst); rin = r.first; rd = r.second; has_in = true; });
        else window([&] { std::pair<T *, T *> r = amc::uninitialized_relocate_n(src, cnt, dst); rin = r.first; rd = r.second; has_in = true; });
        MonScope m;
        if (threw) violation("C15", "algo.unexpected_exception", "an _n algorithm over trivially copyable elements threw");
        else {
          if (rd != dst + n || (has_in && rin != src + n)) violation("C15", "algo.returned_iterator", fmt("%s of %ld %s elements with a count of type %s returned {first+%ld, dest+%ld}", fam == 0 ? "uninitialized_copy_n" : fam == 1 ? "uninitialized_move_n" : "uninitialized_relocate_n", n, tname, cname, has_in ? static_cast<long>(rin - src) : n, static_cast<long>(rd - dst)));
          for (long i = 0; i < n + 2 && !g_cut; ++i) { T want = i < n ? static_cast<T>(i % 97 + 1) : static_cast<T>(0); if (!(dst[i] == want)) { violation("C15", "algo.values", fmt("element %ld of %ld differs after an _n algorithm with a count of type %s", i, n, cname)); break; } }
        }
        free(src);
        free(dst);
      }
    }
  }
  void count_type_cells() {
    std::vector<long> c8 = {0, 1, 2, 126, 127}, u8 = {0, 1, 127, 128, 129, 200, 255}, c16 = {0, 5, 32767}, u16 = {0, 5, 32767, 32768, 40000, 65535}, big = {0, 3, 300, 70000};
    count_cells<int, signed char>("int", "signed char", c8);
    count_cells<int, unsigned char>("int", "unsigned char", u8);
    count_cells<int, int16_t>("int", "int16_t", c16);
    count_cells<int, uint16_t>("int", "uint16_t", u16);
    count_cells<int, uint32_t>("int", "uint32_t", big);
    count_cells<int, uint64_t>("int", "uint64_t", big);
    count_cells<int, long>("int", "long", big);
    count_cells<unsigned char, unsigned char>("unsigned char", "unsigned char", u8);
    count_cells<double, uint16_t>("double", "uint16_t", u16);
    count_cells<double, unsigned char>("double", "unsigned char", u8);
  }
  template <class T>
  void construct_cells() {
    for (int form = 0; form < 3 && !g_cut; ++form) {
      long M = construct_attempt<T>(form, -1);
      n_points += static_cast<uint64_t>(M);
      for (long k = 0; k < M && !g_cut; ++k) construct_attempt<T>(form, k);
    }
  }
  template <class T>
  long relocate_at_attempt(long k) {
    cellsig(A_RELOC_AT, TI<T>::name(), S_PTR, 1, k);
    Arena<T> a, srcA;
    T *d = a.slots + 1;
    T *src = srcA.slots;
    Val v = TI<T>::norm(Val(9, ++paycnt));
    { MonScope m; TI<T>::make(src, v.key, v.pay); }
    T *ret = nullptr;
    const long live0 = g_live_lib;
    struct Call { T *d, *src; T **ret; void operator()() const { *ret = amc::relocate_at(src, d); } };
    Call c = {d, src, &ret};
    long pts = armed(k, c);
    MonScope m;
    if (k >= 0 && threw && threw_fault) ++n_faulted;
    if (threw && !threw_fault) violation("C15", "algo.unexpected_exception", "relocate_at threw");
    if (!threw) {
      if (ret != d) violation("C15", "algo.returned_iterator", "relocate_at did not return dest");
      Val got = TI<T>::val(*d);
      if (!got.same(v)) violation("C15", "algo.constructed_value", "relocate_at: wrong value at the destination");
      if (TI<T>::tracked) {
        check_sources<T>(src, 1, 1, 2, A_RELOC_AT);
        long want = TI<T>::relocatable() ? 0 : 1;
        if (g_live_lib - live0 != want) violation("C15", "algo.object_count", "relocate_at object count");
      }
      destroy_all(d, 1, 1);
    } else {
      if (TI<T>::tracked) { if (g_live_lib != live0) violation("C15", "algo.cleanup_on_throw", "an object remains after relocate_at threw"); check_sources<T>(src, 1, 1, 3, A_RELOC_AT); }
      destroy_all(src, 1, 1);
    }
    if (TI<T>::tracked && (g_live_lib != 0 || g_live_harness != 0)) { if (!g_cut) violation("C15", "algo.double_or_missing_destroy", "objects remain after relocate_at clean-up"); g_live_lib = 0; g_live_harness = 0; }
    return pts;
  }
  template <class T>
  void relocate_at_cells() {
    long M = relocate_at_attempt<T>(-1);
    n_points += static_cast<uint64_t>(M);
    for (long k = 0; k < M && !g_cut; ++k) relocate_at_attempt<T>(k);
  }

  // overlapping relocate (how shift_left / shift_right use it): only for bitwise-relocatable categories
  template <class T>
  void overlap_cells() {
    for (int len = 0; len <= kMaxLen && !g_cut; ++len)
      for (int dir = 0; dir < 2 && !g_cut; ++dir)
        for (int form = 0; form < 2 && !g_cut; ++form) {
          cellsig(A_OVERLAP, TI<T>::name(), S_PTR, len, -1);
          Arena<T> a;
          T *base = a.slots + 2;
          std::vector<Val> vals;
          T *from = dir == 0 ? base + 1 : base;  // dir 0: shift left by one, dir 1: shift right by one
          T *to = dir == 0 ? base : base + 1;
          { MonScope m; for (int i = 0; i < len; ++i) { Val v = TI<T>::norm(Val(i + 1, ++paycnt)); vals.push_back(v); TI<T>::make(from + i, v.key, v.pay); } }
          T *ret = nullptr;
          struct Call { int form; T *from, *to; int len; T **ret; void operator()() const { if (form == 0) *ret = amc::uninitialized_relocate(from, from + len, to); else *ret = amc::uninitialized_relocate_n(from, len, to).second; } };
          Call c = {form, from, to, len, &ret};
          window(c);
          MonScope m;
          if (threw) violation("C15", "algo.unexpected_exception", "overlapping relocate threw");
          else {
            if (ret != to + len) violation("C15", "algo.returned_iterator", "overlapping relocate returned a wrong iterator");
            for (int i = 0; i < len; ++i) { Val got = TI<T>::val(to[i]); if (!got.same(vals[i])) { violation("C15", "algo.constructed_value", fmt("overlapping relocate (%s by one): element %d is %d.%u, expected %d.%u", dir ? "right" : "left", i, got.key, got.pay, vals[i].key, vals[i].pay)); break; } }
            destroy_all(to, 1, len);
          }
          if (TI<T>::tracked && (g_live_lib != 0 || g_live_harness != 0)) { if (!g_cut) violation("C15", "algo.double_or_missing_destroy", "objects remain after overlapping relocate"); g_live_lib = 0; g_live_harness = 0; }
        }
  }

  // destroy_at on an array object (offered by the emulation before C++17 and by the standard from C++20)
#if __cplusplus < 201703L || __cplusplus >= 202002L
#define VF_DESTROY_AT_ARRAY 1
#endif
  template <class T>
  void destroy_array_cells() {
#ifdef VF_DESTROY_AT_ARRAY
    cellsig(A_DESTROY_AT_ARRAY, TI<T>::name(), S_PTR, 2, -1);
    Arena<T> a;
    typedef T Arr[2];
    Arr *arr = reinterpret_cast<Arr *>(a.slots + 1);
    { MonScope m; TI<T>::make(&(*arr)[0], 1, ++paycnt); TI<T>::make(&(*arr)[1], 2, ++paycnt); }
    const long h0 = g_live_harness;
    struct Call { Arr *arr; void operator()() const { amc::destroy_at(arr); } };
    Call c = {arr};
    window(c);
    MonScope m;
    if (threw) violation("C15", "algo.unexpected_exception", "destroy_at(array) threw");
    if (TI<T>::tracked && h0 - g_live_harness != 2) violation("C15", "algo.destroy_count", fmt("destroy_at on T[2] destroyed %ld objects", h0 - g_live_harness));
    g_live_harness = 0;
    g_live_lib = 0;
#endif
  }

  void run_algo(int algo, long idx) {
    begin_history(0, idx, 0xC15);
#ifdef VF_HETERO_RELOC
    // Optional engine (its own binary): relocation between DIFFERENT types. amc accepts it; the standard algorithms the property refers to do not
    // define it, so a tree on which this binary does not compile is not judged by it (the driver then notes that the feature is not offered).
    if (algo == A_URELOC || algo == A_URELOC_N) { int f = 4 + algo - A_URELOC; hetero_family<NTR, NTR_MO>(algo, f); hetero_family<TR, NTR>(algo, f); }
    if (!g_cut) end_history_ok();
    return;
#endif
    switch (algo) {
      case A_CONSTRUCT_AT: construct_cells<int>(); construct_cells<TC4>(); construct_cells<TR>(); construct_cells<NTR>(); construct_cells<NTR_TM>(); construct_cells<NTR_NCTM>(); break;
      case A_DESTROY_AT: case A_DESTROY: case A_DESTROY_N: destroy_family<int>(algo); destroy_family<TC4>(algo); destroy_family<TR>(algo); destroy_family<NTR>(algo); break;
      case A_UCOPY: case A_UCOPY_N: { int f = algo - A_UCOPY; range_family<int>(algo, f); range_family<TC4>(algo, f); range_family<PMem>(algo, f); range_family<TR>(algo, f); range_family<NTR>(algo, f); range_family<NTR_TM>(algo, f); range_family<NTR_NCTM>(algo, f); hetero_family<NTR, NTR_MO>(algo, f); hetero_family<TR, NTR>(algo, f); break; }
      case A_UMOVE: case A_UMOVE_N: { int f = 2 + algo - A_UMOVE; range_family<int>(algo, f); range_family<TC4>(algo, f); range_family<TR>(algo, f); range_family<NTR>(algo, f); range_family<NTR_TM>(algo, f); range_family<NTR_NCTM>(algo, f); hetero_family<NTR, NTR_MO>(algo, f); hetero_family<TR, NTR>(algo, f); break; }
      case A_UDEFAULT: case A_UDEFAULT_N: case A_UVALUE: case A_UVALUE_N: { int f = algo - A_UDEFAULT; ctor_family<int>(algo, f); ctor_family<TC4>(algo, f); ctor_family<PMem>(algo, f); ctor_family<TDCA>(algo, f); ctor_family<NTDef>(algo, f); ctor_family<TR>(algo, f); ctor_family<NTR>(algo, f); break; }
      case A_URELOC: case A_URELOC_N: { int f = 4 + algo - A_URELOC; if (algo == A_URELOC_N) count_type_cells(); range_family<int>(algo, f); range_family<TC4>(algo, f); range_family<TR>(algo, f); range_family<NTR>(algo, f); range_family<NTR_TM>(algo, f); range_family<NTR_NCTM>(algo, f); break; }
      case A_RELOC_AT: relocate_at_cells<int>(); relocate_at_cells<TC4>(); relocate_at_cells<TR>(); relocate_at_cells<NTR>(); relocate_at_cells<NTR_TM>(); relocate_at_cells<NTR_NCTM>(); break;
      case A_OVERLAP: overlap_cells<int>(); overlap_cells<TC4>(); overlap_cells<TR>(); break;
      case A_DESTROY_AT_ARRAY: destroy_array_cells<int>(); destroy_array_cells<TR>(); destroy_array_cells<NTR>(); break;
    }
    if (!g_cut) end_history_ok();
  }
};

}  // namespace vf

int main(int argc, char **argv) {
  using namespace vf;
  Args a;
  a.parse(argc, argv);
  static AlgoEngine eng;
  g_check_raw_overwrite = false;
  long total = A_N;
  long to = a.to < total ? a.to : total;
  long h = a.from;
  for (; h < to; ++h) {
    eng.run_algo(static_cast<int>(h), h);
    if (g_cut) break;
  }
  eng.counters["cells"] = eng.n_cells;
  eng.counters["fault_points_found"] = eng.n_points;
  eng.counters["faulted_executions"] = eng.n_faulted;
  eng.write_summary(VF_CFG_NAME, a.seed, a.from, g_cut ? h + 1 : h, a.to, false);
  if (g_cut) _exit(3);
  return 0;
}
