// Helpers shared by the vector grid engines (C08 limits, C09 faults, C10 aliasing, C13 swap2): building a container in a
// precise (size, capacity, inline/heap) state and comparing it with a model.
#pragma once

#include "engine_base.hpp"
#include "gen/ranges.hpp"
#include "vec_common.hpp"

namespace vf {

template <class V>
struct Box {
  V *obj = nullptr;
  std::vector<Val> model;
};

enum Spare { SP_NATURAL = 0, SP_GROW, SP_EXACT, SP_MORE, SP_PARTIAL };
inline const char *sparename(int s) { static const char *n[] = {"natural", "heap-full", "heap-exact-room", "heap-more-room", "heap-some-room-but-not-enough"}; return n[s]; }

struct GridBase : EngineBase {
  unsigned paycnt = 0;
  template <class V>
  V *raw_new() {
    MonScope m;
    // canaries around the object: a write outside the container's own storage that stays inside this block is still seen
    char *p = static_cast<char *>(malloc(sizeof(V) + 64));
    memset(p, 0xC7, sizeof(V) + 64);
    return reinterpret_cast<V *>(p + 32);
  }
  template <class V>
  bool canaries_ok(V *v) {
    const unsigned char *p = reinterpret_cast<const unsigned char *>(v);
    for (int i = 1; i <= 32; ++i)
      if (p[-i] != 0xC7) return false;
    for (size_t i = 0; i < 32; ++i)
      if (p[sizeof(V) + i] != 0xC7) return false;
    return true;
  }
  template <class V>
  void raw_free(V *v) {
    MonScope m;
    free(reinterpret_cast<char *>(v) - 32);
  }

  // Builds a container of `size` elements. want_cap: 0 = whatever results from construction (inline when possible);
  // otherwise the capacity the vector must report (reached through reserve before filling). Returns false if the state cannot be formed.
  template <class V>
  bool build(Box<V> &b, uintmax_t size, uintmax_t want_cap) {
    typedef VecInfo<V> I;
    typedef typename I::size_type SizeT;
    b.obj = raw_new<V>();
    b.model.clear();
    window([&] { new (b.obj) V(); });
    if (want_cap) {
      if (I::kFixed) { if (want_cap != I::kN) return false; }
      else {
        if (want_cap > I::limit() || (I::kSmall && want_cap <= I::kN)) return false;
        window([&] { b.obj->reserve(static_cast<SizeT>(want_cap)); });
        if (threw) return false;
      }
    }
    for (uintmax_t i = 0; i < size; ++i) {
      Val x = EI<typename I::elem>::norm(Val(static_cast<int>(i % 6), ++paycnt));
      window([&] { b.obj->emplace_back(x.key, x.pay); });
      if (threw) return false;
      b.model.push_back(x);
    }
    if (want_cap && static_cast<uintmax_t>(b.obj->capacity()) != want_cap) return false;
    return true;
  }
  template <class V>
  void destroy(Box<V> &b) {
    if (!b.obj) return;
    window([&] { b.obj->~V(); });
    raw_free(b.obj);
    b.obj = nullptr;
  }
  template <class V>
  Snap snap(const V &v) { MonScope m; Snap s; take_snap(v, s); return s; }

  // after all boxes of a cell are destroyed
  template <class E>
  void cell_end(const char *props) {
    MonScope m;
    if (EI<E>::kTracked && g_live_lib != 0) { violation(props, "ledger.alive_after_destruction", fmt("%ld element object(s) still alive after the containers were destroyed", g_live_lib)); g_live_lib = 0; }
    if (g_blk_live != 0) { violation(props, "alloc.outstanding_after_destruction", fmt("%ld block(s) outstanding after the containers were destroyed", g_blk_live)); }
    // long grids create millions of tracked objects per history: recycle the serial space between cells, when nothing is alive
    if (g_next_serial > kMaxSerial / 2 && g_live_lib == 0 && g_live_harness == 0) ledger_reset();
  }
};

}  // namespace vf
