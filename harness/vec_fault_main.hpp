// C09 (vectors): fault enumeration.  For every scenario (state x operation x position x count) the operation is first run
// fault-free to count its M throwing-capable events (element constructions / copies / copy-assignments, allocator calls),
// then re-run M times from scratch with the k-th event throwing.
// The including TU defines Elem, Vec, VF_CFG_NAME.  "history" index = operation id.
#pragma once

#include "vec_grid_common.hpp"

namespace vf {

enum FOp {
  F_PUSH_C = 0, F_PUSH_M, F_EMPLACE_BACK, F_EMPLACE, F_INSERT_C, F_INSERT_M, F_INSERT_N, F_INSERT_RANGE, F_INSERT_IL, F_RESIZE, F_RESIZE_V, F_RESERVE,
  F_SHRINK, F_ASSIGN_N, F_ASSIGN_RANGE, F_ASSIGN_IL, F_COPY_ASSIGN, F_COPY_CTOR, F_CTOR_N, F_CTOR_NV, F_CTOR_RANGE, F_CTOR_IL, F_APPEND_RANGE, F_APPEND_N,
  F_APPEND_NV, F_APPEND_IL, F_INSERT_INPUT, F_SWAP, F_SWAP2, F_N
};
inline const char *fopname(int o) {
  static const char *n[] = {"push_back(const&)", "push_back(&&)", "emplace_back", "emplace", "insert(pos,const&)", "insert(pos,&&)", "insert(pos,n,v)",
                            "insert(pos,range)", "insert(pos,il)", "resize(n)", "resize(n,v)", "reserve", "shrink_to_fit", "assign(n,v)", "assign(range)",
                            "assign(il)", "operator=(const&)", "ctor(copy)", "ctor(n)", "ctor(n,v)", "ctor(range)", "ctor(il)", "append(range)", "append(n)",
                            "append(n,v)", "append(il)", "insert(pos,single-pass range)", "swap(same type)", "swap2(same type)"};
  return n[o];
}

template <class Vec>
struct FaultSweep : GridBase {
  typedef VecInfo<Vec> I;
  typedef typename I::elem E;
  typedef typename I::size_type SizeT;
  uint64_t n_scen = 0, n_faulted = 0, n_unreached = 0, n_strong = 0, n_basic = 0, n_points = 0;
  bool wide = false;

  template <class F>
  void with_il(const std::vector<Val> &vals, F &&f) {
    switch (vals.size()) {
      case 0: { std::initializer_list<E> il = {}; f(il); break; }
      case 1: { g_monitor_depth++; std::initializer_list<E> il = {E(vals[0].key, vals[0].pay)}; g_monitor_depth--; f(il); g_monitor_depth++; }
        g_monitor_depth--; break;
      case 2: { g_monitor_depth++; std::initializer_list<E> il = {E(vals[0].key, vals[0].pay), E(vals[1].key, vals[1].pay)}; g_monitor_depth--; f(il); g_monitor_depth++; }
        g_monitor_depth--; break;
      default: { g_monitor_depth++; std::initializer_list<E> il = {E(vals[0].key, vals[0].pay), E(vals[1].key, vals[1].pay), E(vals[2].key, vals[2].pay)}; g_monitor_depth--; f(il); g_monitor_depth++; }
        g_monitor_depth--; break;
    }
  }

  // the armed window: counts fault points of the call; throws at point k (k < 0: never)
  template <class F>
  long armed(long k, F &&f) {
    allow_fault = true;
    g_fault_points = 0;
    g_fault_at = k;
    window(f);
    g_fault_at = -1;
    allow_fault = false;
    return g_fault_points;
  }

  // Is the operation documented strong for this (op, pos, size)?
  static bool is_strong(int op, uintmax_t pos, uintmax_t size, uintmax_t arg, bool) {
    switch (op) {
      case F_PUSH_C: case F_PUSH_M: case F_EMPLACE_BACK: case F_EMPLACE: case F_INSERT_C: case F_INSERT_M: case F_RESERVE: case F_SHRINK:
      case F_APPEND_RANGE: case F_APPEND_N: case F_APPEND_NV: case F_APPEND_IL:
        return true;
      case F_INSERT_N: case F_INSERT_RANGE: case F_INSERT_IL: return pos == size;  // insertion at the end
      case F_RESIZE: case F_RESIZE_V: return arg >= size;                          // growing resize
      default: return false;
    }
  }

  void run_op(int op, long idx) {
    begin_history(0, idx, 0xC09);
    const bool is_ctor = op >= F_COPY_CTOR && op <= F_CTOR_IL;
    uintmax_t sizes[] = {0, 2, 5};
    uintmax_t counts_a[] = {1, 2, 3, 5};
    uintmax_t counts_w[] = {0, 1, 2, 3, 4, 5, 7};
    const bool single = op <= F_INSERT_M;
    const bool uses_pos = op == F_EMPLACE || (op >= F_INSERT_C && op <= F_INSERT_IL) || op == F_INSERT_INPUT;
    for (uintmax_t size : sizes) {
      for (int spare = 0; spare < 5 && !g_cut; ++spare) {
        if (I::kFixed && spare != SP_NATURAL) continue;
        if (is_ctor && op != F_COPY_CTOR && (size != 0 || spare != 0)) continue;
        std::vector<uintmax_t> cs;
        if (single || op == F_SHRINK || op == F_COPY_CTOR || op == F_COPY_ASSIGN) cs.push_back(1);
        else if (wide) cs.assign(counts_w, counts_w + 7);
        else cs.assign(counts_a, counts_a + 4);
        std::vector<uintmax_t> ps;
        if (uses_pos) { ps.push_back(0); if (size > 1) ps.push_back(size / 2); if (size) ps.push_back(size); }
        else ps.push_back(size);
        for (uintmax_t c : cs)
          for (uintmax_t pos : ps) {
            if (g_cut) return;
            if ((op == F_INSERT_IL || op == F_ASSIGN_IL || op == F_APPEND_IL || op == F_CTOR_IL) && c > 3) continue;
            for (int kind = 0; kind < ((op == F_INSERT_RANGE || op == F_ASSIGN_RANGE || op == F_APPEND_RANGE || op == F_CTOR_RANGE) ? 4 : 1); ++kind) scenario(op, size, spare, pos, c, kind);
          }
      }
    }
    if (!g_cut) end_history_ok();
  }

  // runs the operation once with fault index k; returns the number of fault points seen. `out` describes the outcome.
  struct Outcome { bool threw; bool strong_ok; };

  void scenario(int op, uintmax_t size, int spare, uintmax_t pos, uintmax_t c, int kind) {
    ++n_scen;
    long M = attempt(op, size, spare, pos, c, kind, -1);
    if (g_cut || M < 0) return;
    n_points += static_cast<uint64_t>(M);
    for (long k = 0; k < M && !g_cut; ++k) attempt(op, size, spare, pos, c, kind, k);
  }

  long attempt(int op, uintmax_t size, int spare, uintmax_t pos, uintmax_t c, int kind, long k) {
    const bool is_ctor = op >= F_COPY_CTOR && op <= F_CTOR_IL;
    Box<Vec> b, other;
    uintmax_t want_cap = 0;
    uintmax_t added = (op <= F_INSERT_M) ? 1 : (op == F_SWAP || op == F_SWAP2) ? 0 : c;
    if (spare == SP_GROW) want_cap = size;
    else if (spare == SP_EXACT) want_cap = size + added;
    else if (spare == SP_MORE) want_cap = size + added + 3;
    else if (spare == SP_PARTIAL) {
      // a heap buffer with some room left, but not enough for this call: it has to grow from a buffer that is not full (and holds no live
      // element at all when size == 0). Needs a call adding at least two elements.
      uintmax_t need = (op == F_ASSIGN_N || op == F_ASSIGN_RANGE || op == F_ASSIGN_IL) ? (c > size ? c - size : 0) : added;
      if (need < 2) return -1;
      want_cap = size + need - 1;
    }
    if (want_cap == 0 && spare != SP_NATURAL) return -1;
    const bool is_swap = op == F_SWAP || op == F_SWAP2;
    bool need_src = op == F_COPY_ASSIGN || op == F_COPY_CTOR || is_swap;
    if (!(is_ctor && !need_src)) {
      if (!build(b, size, want_cap)) { destroy(b); cell_end<E>("C09"); return -1; }
    }
    if (need_src) {
      // source of the copy: c selects nothing here; use a source of 4 elements (beyond / within the destination capacity depending on the state)
      // (swap / swap2: the other operand holds c elements in a buffer of natural capacity; the allocation of the capacity adjustment is the fault)
      if (!build(other, op == F_COPY_CTOR ? size : is_swap ? c : 4, 0)) { destroy(b); destroy(other); cell_end<E>("C09"); return -1; }
    }
    uintmax_t result = size + added;
    if (op == F_RESIZE || op == F_RESIZE_V) result = c >= 3 ? size + c : (size > c ? size - c : 0);   // counts 3,5 grow; 1,2 shrink
    if (op == F_RESERVE) result = size;
    if (op == F_ASSIGN_N || op == F_ASSIGN_RANGE || op == F_ASSIGN_IL) result = c;
    uintmax_t arg = (op == F_RESERVE) ? size + c : result;
    if (result > I::limit() || arg > I::limit()) { destroy(b); destroy(other); cell_end<E>("C09"); return -1; }
    Vec *vp = b.obj;
    Snap before;
    if (vp && !(is_ctor)) before = snap(*vp);
    const bool strong = is_strong(op, pos, size, arg, false);
    {
      MonScope mm;
      g_cur_sig = std::string(fopname(op)) + "/" + (vp && !is_ctor ? state_class<Vec>(before) : "-") + "/" + (uses_grow(before, result) ? "grows" : "fits") + (strong ? ",strong" : ",basic") +
                  (pos == size ? ",end" : pos == 0 ? ",begin" : ",mid");
      g_cur_desc = fmt("size=%ju cap=%ju pos=%ju count=%ju kind=%d fault_index=%ld", size, before.cap, pos, c, kind, k);
      if (k < 0) ++cells[g_cur_sig];
    }
    std::vector<Val> vals;
    bool vals_needed = op == F_INSERT_RANGE || op == F_INSERT_IL || op == F_ASSIGN_RANGE || op == F_ASSIGN_IL || op == F_APPEND_RANGE || op == F_APPEND_IL || op == F_CTOR_RANGE || op == F_CTOR_IL || op == F_INSERT_INPUT;
    if (vals_needed) for (uintmax_t i = 0; i < c; ++i) vals.push_back(EI<E>::norm(Val(static_cast<int>(i % 6), ++paycnt)));
    Val x = EI<E>::norm(Val(5, ++paycnt));
    E *e;
    { MonScope m; e = new E(x.key, x.pay); }
    static const int kinds[] = {RK_PTR, RK_LIST, RK_MOVE, RK_PROTO};  // move iterators: a range the library may (wrongly) take for single-pass; values of another type: the conversion is the throwing event
    long pts = 0;
    Vec *np = nullptr;  // object under construction (constructor scenarios)
    switch (op) {
      case F_PUSH_C: pts = armed(k, [&] { vp->push_back(*e); }); break;
      case F_PUSH_M: pts = armed(k, [&] { vp->push_back(std::move(*e)); }); break;
      case F_EMPLACE_BACK: pts = armed(k, [&] { vp->emplace_back(x.key, x.pay); }); break;
      case F_EMPLACE: pts = armed(k, [&] { vp->emplace(vp->begin() + pos, x.key, x.pay); }); break;
      case F_INSERT_C: pts = armed(k, [&] { vp->insert(vp->begin() + pos, *e); }); break;
      case F_INSERT_M: pts = armed(k, [&] { vp->insert(vp->begin() + pos, std::move(*e)); }); break;
      case F_INSERT_N: pts = armed(k, [&] { vp->insert(vp->begin() + pos, static_cast<SizeT>(c), *e); }); break;
      case F_INSERT_RANGE: with_range<E>(kinds[kind], vals, [&](auto f, auto l) { pts = armed(k, [&] { vp->insert(vp->begin() + pos, f, l); }); }); break;
      case F_INSERT_INPUT: with_range<E>(RK_INPUT, vals, [&](auto f, auto l) { pts = armed(k, [&] { vp->insert(vp->begin() + pos, f, l); }); }); break;
      case F_INSERT_IL: with_il(vals, [&](std::initializer_list<E> il) { pts = armed(k, [&] { vp->insert(vp->begin() + pos, il); }); }); break;
      case F_RESIZE: pts = armed(k, [&] { vp->resize(static_cast<SizeT>(arg)); }); break;
      case F_RESIZE_V: pts = armed(k, [&] { vp->resize(static_cast<SizeT>(arg), *e); }); break;
      case F_RESERVE: pts = armed(k, [&] { vp->reserve(static_cast<SizeT>(arg)); }); break;
      case F_SHRINK: pts = armed(k, [&] { vp->shrink_to_fit(); }); break;
      case F_ASSIGN_N: pts = armed(k, [&] { vp->assign(static_cast<SizeT>(c), *e); }); break;
      case F_ASSIGN_RANGE: with_range<E>(kinds[kind], vals, [&](auto f, auto l) { pts = armed(k, [&] { vp->assign(f, l); }); }); break;
      case F_ASSIGN_IL: with_il(vals, [&](std::initializer_list<E> il) { pts = armed(k, [&] { vp->assign(il); }); }); break;
      case F_COPY_ASSIGN: pts = armed(k, [&] { *vp = *other.obj; }); break;
      case F_COPY_CTOR: np = raw_new<Vec>(); pts = armed(k, [&] { new (np) Vec(*other.obj); }); break;
      case F_CTOR_N: np = raw_new<Vec>(); pts = armed(k, [&] { new (np) Vec(static_cast<SizeT>(c)); }); break;
      case F_CTOR_NV: np = raw_new<Vec>(); pts = armed(k, [&] { new (np) Vec(static_cast<SizeT>(c), *e); }); break;
      case F_CTOR_RANGE: np = raw_new<Vec>(); with_range<E>(kinds[kind], vals, [&](auto f, auto l) { pts = armed(k, [&] { new (np) Vec(f, l); }); }); break;
      case F_CTOR_IL: np = raw_new<Vec>(); with_il(vals, [&](std::initializer_list<E> il) { pts = armed(k, [&] { new (np) Vec(il); }); }); break;
      case F_APPEND_RANGE: with_range<E>(kinds[kind], vals, [&](auto f, auto l) { pts = armed(k, [&] { vp->append(f, l); }); }); break;
      case F_APPEND_N: pts = armed(k, [&] { vp->append(static_cast<SizeT>(c)); }); break;
      case F_APPEND_NV: pts = armed(k, [&] { vp->append(static_cast<SizeT>(c), *e); }); break;
      case F_APPEND_IL: with_il(vals, [&](std::initializer_list<E> il) { pts = armed(k, [&] { vp->append(il); }); }); break;
      case F_SWAP: pts = armed(k, [&] { vp->swap(*other.obj); }); break;
      case F_SWAP2: pts = armed(k, [&] { vp->swap2(*other.obj); }); break;
    }
    { MonScope mm; delete e; }
    const bool faulted = threw && (threw_fault || threw_what.find("bad_alloc") != std::string::npos);
    if (threw && !faulted) violation("C09", "fault.unexpected_exception", fmt("threw %s", threw_what.c_str()));
    if (k >= 0) {
      if (faulted) {
        ++n_faulted;
        if (strong) ++n_strong; else ++n_basic;
      } else ++n_unreached;
    } else if (threw) {
      violation("C09", "fault.exception_without_fault", "the fault-free run threw");
    }
    // ----- judge
    if (np) {
      if (threw) { raw_free(np); np = nullptr; }  // no object: everything it created must be gone (cell_end)
      else { Box<Vec> nb; nb.obj = np; destroy(nb); }
    }
    if (vp && !g_cut) {
      Snap after = snap(*vp);   // probes every visible element: alive, not moved-from
      MonScope mm;
      if (after.sane) {
        long expect_live = static_cast<long>(after.size) + (other.obj ? static_cast<long>(other.obj->size()) : 0);
        if (EI<E>::kTracked && g_live_lib != expect_live)
          violation("C09,C02", "fault.live_vs_visible", fmt("after the %s: %ld element objects alive, %ld visible (%s)", faulted ? "exception" : "call", g_live_lib, expect_live,
                                                        g_live_lib > expect_live ? "leak" : "visible element not alive"));
        if (faulted && strong && !is_ctor) {
          if (after.size != before.size || !same_vals(after.vals, before.vals))
            violation("C09", "fault.strong_guarantee_broken", fmt("documented strong guarantee: contents %s (size %ju) became %s (size %ju)", vals_str(before.vals).c_str(), before.size, vals_str(after.vals).c_str(), after.size));
        }
        // allocator ledger: exactly the blocks the containers own
        long expect_blk = (!after.inl && after.cap > 0 ? 1 : 0);
        if (other.obj) { Snap so; take_snap(*other.obj, so); expect_blk += (!so.inl && so.cap > 0 ? 1 : 0); }
        if (AllocKind<typename I::alloc>::fam != FAM_NONE && g_blk_live != expect_blk)
          violation("C09,C06", "fault.block_ledger", fmt("%ld blocks outstanding, the containers own %ld", g_blk_live, expect_blk));
      }
    }
    // ----- the container can still be used and destroyed
    if (vp && !g_cut) {
      Snap now = snap(*vp);
      std::vector<Val> m = now.vals;
      if (now.sane) {
        { MonScope mm; g_cur_sig += "+followup"; }
        if (!m.empty()) { window([&] { vp->pop_back(); }); m.pop_back(); }
        if (m.size() + 2 <= I::limit()) {
          Val y = EI<E>::norm(Val(3, ++paycnt));
          window([&] { vp->emplace_back(y.key, y.pay); });
          m.push_back(y);
          Val z = EI<E>::norm(Val(4, ++paycnt));
          window([&] { vp->emplace(vp->begin(), z.key, z.pay); });
          m.insert(m.begin(), z);
        }
        if (threw) violation("C09", "fault.unusable_after", "a follow-up operation threw");
        else {
          Snap fin = snap(*vp);
          MonScope mm;
          if (fin.sane && !same_vals(fin.vals, m)) violation("C09", "fault.unusable_after", fmt("follow-up gives %s, expected %s", vals_str(fin.vals).c_str(), vals_str(m).c_str()));
        }
      }
    }
    destroy(b);
    destroy(other);
    cell_end<E>("C09,C02");
    return pts;
  }
  static bool uses_grow(const Snap &before, uintmax_t result) { return result > before.cap; }

  // Real allocation failure of the stock allocators (malloc / realloc returning null): only reachable with a 64-bit size_type and an impossible capacity.
  // reserve / resize / append beyond what the process can get must throw (bad_alloc or length_error) and leave the vector exactly as it was.
  void run_huge(long idx) {
    begin_history(0, idx, 0xC09);
    if (sizeof(SizeT) < 8 || I::kFixed || !std::is_same<typename I::alloc, amc::allocator<E> >::value) { end_history_ok(); return; }
    const uintmax_t huge = (static_cast<uintmax_t>(1) << 59) / sizeof(E);
    uintmax_t sizes[] = {0, 2, 7};
    for (uintmax_t size : sizes)
      for (int spare = 0; spare < 3 && !g_cut; ++spare)
        for (int form = 0; form < 3 && !g_cut; ++form) {
          Box<Vec> b;
          uintmax_t want_cap = spare == 0 ? 0 : spare == 1 ? size : size + 9;
          if (spare && want_cap == 0) continue;
          if (!build(b, size, want_cap)) { destroy(b); cell_end<E>("C09"); continue; }
          Vec *vp = b.obj;
          Snap before = snap(*vp);
          set_op(form == 0 ? "reserve(huge)" : form == 1 ? "resize(huge)" : "append(huge)", state_class<Vec>(before), "allocation-failure,strong", fmt("size=%ju cap=%ju request=%ju elements", size, before.cap, huge));
          ++n_scen;
          const long live0 = g_live_lib;
          if (form == 0) window([&] { vp->reserve(static_cast<SizeT>(huge)); });
          else if (form == 1) window([&] { vp->resize(static_cast<SizeT>(huge)); });
          else window([&] { vp->append(static_cast<SizeT>(huge)); });
          if (!threw) violation("C09", "fault.huge_request_succeeded", "a request for 2^59 bytes did not fail");
          else if (threw_what.find("bad_alloc") == std::string::npos && threw_what.find("length_error") == std::string::npos) violation("C09", "fault.unexpected_exception", fmt("threw %s", threw_what.c_str()));
          else {
            ++n_faulted;
            ++n_strong;
            Snap after = snap(*vp);
            MonScope mm;
            if (after.sane && (after.size != before.size || !same_vals(after.vals, before.vals) || after.cap != before.cap || after.data != before.data))
              violation("C09", "fault.strong_guarantee_broken", fmt("after the allocation failure: size %ju->%ju capacity %ju->%ju data %s", before.size, after.size, before.cap, after.cap, after.data == before.data ? "same" : "changed"));
            if (EI<E>::kTracked && g_live_lib != live0) violation("C09,C02", "fault.live_vs_visible", "element count changed by a failed allocation");
          }
          // still usable: touch every element, grow a little, destroy
          if (!g_cut) {
            std::vector<Val> m = b.model;
            Val y = EI<E>::norm(Val(3, ++paycnt));
            window([&] { vp->emplace_back(y.key, y.pay); });
            m.push_back(y);
            window([&] { vp->shrink_to_fit(); });
            Snap fin = snap(*vp);
            MonScope mm;
            if (threw) violation("C09", "fault.unusable_after", "follow-up threw");
            else if (fin.sane && !same_vals(fin.vals, m)) violation("C09", "fault.unusable_after", "follow-up result differs");
          }
          destroy(b);
          cell_end<E>("C09,C02");
        }
    if (!g_cut) end_history_ok();
  }
};

}  // namespace vf

int main(int argc, char **argv) {
  using namespace vf;
  Args a;
  a.parse(argc, argv);
  install_malloc_hook();
  g_elem_relocatable = EI<Elem>::kRelocatable;
  static FaultSweep<Vec> eng;
  eng.wide = a.has("--wide");
  long total = F_N + 1;
  long to = a.to < total ? a.to : total;
  long h = a.from;
  for (; h < to; ++h) {
    if (h == F_N) eng.run_huge(h);
    else eng.run_op(static_cast<int>(h), h);
    if (g_cut) break;
  }
  eng.counters["scenarios"] = eng.n_scen;
  eng.counters["fault_points_found"] = eng.n_points;
  eng.counters["faulted_executions"] = eng.n_faulted;
  eng.counters["armed_but_not_reached"] = eng.n_unreached;
  eng.counters["faulted_strong"] = eng.n_strong;
  eng.counters["faulted_basic"] = eng.n_basic;
  eng.write_summary(VF_CFG_NAME, a.seed, a.from, g_cut ? h + 1 : h, a.to, true);
  if (g_cut) _exit(3);
  return 0;
}
