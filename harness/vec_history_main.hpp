// Random operation histories over pools of vectors, judged step by step by every shared monitor.
// Serves C01 C02 C05 C06 C07 C13(random part) C14(relocation mode).  Included by a generated one-configuration TU that
// defines:  Elem, Vec, Vec2 (swap2 partner type) and VF_CFG_NAME.
#pragma once

#include <algorithm>
#include <map>
#include <stdexcept>

#include "vec_common.hpp"

namespace vf {

template <class V>
struct Slot {
  V *obj = nullptr;
  void *raw = nullptr;
  std::vector<Val> model;
  Snap prev;
  bool entitled = false;      // C05 shadow (SmallVector)
  const void *begin0 = nullptr;
  bool fresh = false;         // (re)constructed by the current op: no before/after rules apply
  int relocs = 0;
};

struct OpInfo {
  unsigned exempt = 0;        // bit per global slot id: capacity may legitimately decrease / data may change (shrink, move, swap)
  int primary = -1;           // global slot id of the container whose "point" rule applies
  long point = -1;            // elements [0, point) of primary must be untouched when the result fits the old capacity
  int ho_dst[2] = {-1, -1}, ho_src[2] = {-1, -1};  // buffer hand-overs expected (dst slot gets src slot's old buffer)
  unsigned operands = 0;      // slots taking part in the call
  unsigned grow_ok = 0;       // reserve(n > capacity): reallocation is the point of the call
  bool self_ok = false;
};

template <class Vec, class Vec2>
struct Engine {
  typedef VecInfo<Vec> I;
  typedef VecInfo<Vec2> I2;
  typedef typename I::elem E;
  typedef typename I::size_type SizeT;
  typedef typename I::alloc Alloc;
  typedef typename std::conditional<I::kSmall, amc::vector<E, Alloc, SizeT>, Vec>::type VecZ;
  static constexpr int NP = 4, NQ = 2, NZ = I::kSmall ? 1 : 0;
  static constexpr bool kInstrAlloc = AllocKind<Alloc>::fam != FAM_NONE || I::kFixed;
  enum : uintmax_t { kMaxLen = 40 };  // an enumerator, not a static member: no definition needed when bound to a reference before C++17

  const void *pd_data[8] = {nullptr, nullptr, nullptr, nullptr, nullptr, nullptr, nullptr, nullptr};  // data() of every slot before the call
  bool pd_heap[8] = {false, false, false, false, false, false, false, false};
  bool g_c18_rule = true;
  uint64_t n_small_growth = 0;
  Slot<Vec> P[NP];
  Slot<Vec2> Q[NQ];
  Slot<VecZ> Z[1];
  Rng rng;
  unsigned paycnt = 0;
  bool reloc_mode = false;
  bool swap2_heavy = false;
  // statistics
  uint64_t n_calls = 0, n_hist = 0, n_cut = 0, n_entitled_calls = 0, n_handover = 0, n_nonrealloc = 0, n_reloc = 0,
           n_unentitled_allocs = 0, n_capdec = 0;
  std::map<std::string, uint64_t> cells;
  std::vector<std::string> sample_hist;
  std::string cur_hist_text;
  uint64_t req0 = 0;
  bool threw = false;
  std::string threw_what;

  // ------------------------------------------------------------------ helpers
  Val nv() { return EI<E>::norm(Val(static_cast<int>(rng.below(6)), ++paycnt)); }
  // large-scale histories (one in twelve): lengths up to 70 x kMaxLen, so that thresholds expressed in bytes or elements (a block size, a page,
  // a cache line) are crossed by the inline and the heap states alike; fewer operations, each of them on thousands of elements
  uintmax_t scale = 1;
  uintmax_t lim() const { return std::min<uintmax_t>(I::limit(), kMaxLen * scale); }

  template <class V>
  void create(Slot<V> &s) {
    MonScope m;
    s.raw = obj_alloc(sizeof(V), alignof(V), alignof(typename V::value_type) > 16);
    memset(s.raw, 0xA5, sizeof(V));
    s.model.clear();
    s.fresh = true;
    s.relocs = 0;
  }
  template <class V>
  void destroy(Slot<V> &s) {
    if (!s.obj) return;
    if (!keep_sig) {
      g_cur_sig = "destroy";
      g_cur_desc = "destructor";
    }
    window([&] { s.obj->~V(); });
    MonScope m;
    memset(s.raw, 0xDD, sizeof(V));
    obj_free(s.raw, alignof(typename V::value_type) > 16);
    s.obj = nullptr;
    s.raw = nullptr;
  }

  template <class F>
  void window(F &&f) {
    threw = false;
    {
      MonScope m;
      ++g_stamp;
      ++n_calls;
      g_n_owner = 0;
      reg_owners(P, NP);
      reg_owners(Q, NQ);
      reg_owners(Z, NZ);
      g_owner_check = !multi_grow;
      req0 = g_alloc_requests + g_hooked_mallocs;
      ring_note("call");
    }
    g_in_call = true;
    try {
      f();
    } catch (const InjectedFault &) {
      g_in_call = false;
      harness_fail("unexpected injected fault");
    } catch (const std::exception &e) {
      g_in_call = false;
      MonScope m;
      threw = true;
      threw_what = typeid(e).name();
    } catch (...) {
      g_in_call = false;
      MonScope m;
      threw = true;
      threw_what = "unknown";
    }
    g_in_call = false;
  }
  template <class V>
  void reg_owners(Slot<V> *s, int n) {
    for (int i = 0; i < n; ++i)
      if (s[i].obj && g_n_owner < 64) {
        g_owner[g_n_owner].data = s[i].prev.data;
        g_owner[g_n_owner].size = static_cast<size_t>(s[i].prev.size);
        ++g_n_owner;
      }
  }
  uint64_t reqs() const { return g_alloc_requests + g_hooked_mallocs - req0; }

  void set_op(const char *name, const std::string &states, const std::string &argclass, const std::string &desc) {
    MonScope m;
    g_cur_sig = std::string(name) + "/" + states + "/" + argclass;
    g_cur_desc = desc;
    ++cells[g_cur_sig];
    if (cur_hist_text.size() < 3000) cur_hist_text += fmt("%s(%s); ", name, desc.c_str());
  }
  template <class V>
  static std::string st(const Slot<V> &s) { return state_class<V>(s.prev); }

  // global slot ids: P 0..3, Q 4..5, Z 6
  static unsigned bitP(int i) { return 1u << i; }
  static unsigned bitQ(int i) { return 1u << (NP + i); }
  static unsigned bitZ() { return 1u << (NP + NQ); }

  // ------------------------------------------------------------------ verification after every call
  template <class V>
  void verify_slot(Slot<V> &s, int gid, const OpInfo &oi, std::vector<uint32_t> &all_serials, long &visible) {
    if (!s.obj) return;
    Snap now;
    take_head(*s.obj, now);
    if (!now.sane) return;
    // C05 first, on what can be observed without touching the elements: a wrong discriminator makes data() garbage
    if (VecInfo<V>::kSmall && s.entitled) {
      if (now.cap != VecInfo<V>::kN) violation("C05", "inline.capacity_not_N", fmt("slot %d: entitled SmallVector reports capacity() %ju, N is %ju (size %ju)", gid, now.cap, static_cast<uintmax_t>(VecInfo<V>::kN), now.size));
      if (!now.inl) { violation("C05", "inline.data_outside_object", fmt("slot %d: entitled SmallVector keeps its elements outside the object (size %ju)", gid, now.size)); return; }
    }
    if (VecInfo<V>::kFixed && !now.inl) { violation("C05", "fixed.data_outside_object", "FixedCapacityVector storage outside the object"); return; }
    take_elems(*s.obj, now);
    visible += static_cast<long>(now.size);
    all_serials.insert(all_serials.end(), now.serials.begin(), now.serials.end());
    // C01: model
    if (!same_vals(now.vals, s.model)) {
      violation("C01", "model.sequence", fmt("slot %d holds %s, std::vector model holds %s", gid, vals_str(now.vals).c_str(), vals_str(s.model).c_str()));
    }
    typedef VecInfo<V> VI;
    const bool exempt = (oi.exempt >> gid) & 1u;
    if (!s.fresh) {
      const Snap &pv = s.prev;
      // C07: capacity never decreases except shrink_to_fit / move / swap
      if (now.cap < pv.cap) {
        if (!exempt) violation("C07", "shadow.capacity_decreased", fmt("slot %d capacity %ju -> %ju", gid, pv.cap, now.cap));
        else ++n_capdec;
      }
      // C07: result fits the previous capacity => no reallocation, elements before the point untouched
      if (!exempt && !((oi.grow_ok >> gid) & 1u) && now.size <= pv.cap) {
        ++n_nonrealloc;
        if (now.data != pv.data) {
          violation("C07", "shadow.realloc_within_capacity", fmt("slot %d: resulting size %ju fits previous capacity %ju but data() changed", gid, now.size, pv.cap));
        } else {
          long upto;
          if ((oi.operands >> gid) & 1u) upto = gid == oi.primary ? oi.point : 0;
          else upto = static_cast<long>(pv.size);  // not an operand at all: nothing may change
          if (upto > static_cast<long>(pv.size)) upto = static_cast<long>(pv.size);
          if (upto > static_cast<long>(now.size)) upto = static_cast<long>(now.size);
          for (long i = 0; i < upto; ++i) {
            if (EI<typename VI::elem>::kTracked) {
              uint32_t se = now.serials[i];
              if (se != pv.serials[i] || g_obj[se].stamp == g_stamp) {
                violation("C07", "shadow.element_before_point_touched",
                          fmt("slot %d: element %ld before the point of insertion/erasure (%ld) was %s", gid, i, upto,
                              se != pv.serials[i] ? "replaced by another object" : "constructed/assigned/destroyed"));
                break;
              }
            } else if (!now.vals[i].same(pv.vals[i])) {
              violation("C07", "shadow.element_before_point_changed", fmt("slot %d: element %ld before the point (%ld) changed value", gid, i, upto));
              break;
            }
          }
        }
      }
    }
    // C18: a vector that has to grow without an explicit request grows geometrically. Judged where the new buffer is a fresh heap block (not the
    // inline storage, not this slot's previous buffer, not a buffer that another pool member owned before the call = hand-over).
    // (swap2 adjusts the capacities of both operands to exactly what the exchange needs before exchanging: an explicit request like reserve)
    if (!s.fresh && !VI::kFixed && !((oi.grow_ok >> gid) & 1u) && now.cap > s.prev.cap && !now.inl && now.data != s.prev.data && s.prev.cap > 0 && g_cur_sig.compare(0, 5, "swap2") != 0) {
      bool taken_over = false;
      for (int g = 0; g < NP + NQ + NZ && !taken_over; ++g) if (g != gid && pd_heap[g] && pd_data[g] == now.data) taken_over = true;
      uintmax_t want = (3 * s.prev.cap + 1) / 2;
      if (!taken_over && now.cap < want && now.cap < VI::limit()) {
        if (g_c18_rule) violation("C18", "growth.factor_below_1_5", fmt("slot %d: capacity grew from %ju to %ju by a new allocation (< ceil(1.5 * old) = %ju) without an explicit reserve", gid, s.prev.cap, now.cap, want));
        else ++n_small_growth;
      }
    }
    // C05 (the entitlement rules were judged above, before the elements were read)
    if (VI::kFixed) {
      if (now.data != s.begin0 && !s.fresh) violation("C05", "fixed.begin_changed", fmt("slot %d: FixedCapacityVector begin() changed", gid));
    }
    if (s.fresh) s.begin0 = now.data;
    s.prev.~Snap();
    new (&s.prev) Snap(std::move(now));
    s.fresh = false;
  }

  template <class V>
  const Snap *prev_of(Slot<V> *arr, int n, int base, int gid) {
    if (gid >= base && gid < base + n) return &arr[gid - base].prev;
    return nullptr;
  }
  const Snap *prev_snap(int gid) {
    if (const Snap *s = prev_of(P, NP, 0, gid)) return s;
    if (const Snap *s = prev_of(Q, NQ, NP, gid)) return s;
    return prev_of(Z, NZ, NP + NQ, gid);
  }

  void verify(const OpInfo &oi, bool all_entitled) {
    MonScope m;
    // hand-over expectations need the previous snapshots: copy what is needed first
    struct HO { const void *src_data; std::vector<uint32_t> serials; bool src_heap; uintmax_t n; } ho[2];
    for (int k = 0; k < 2; ++k) {
      if (oi.ho_dst[k] < 0) continue;
      const Snap *sp = prev_snap(oi.ho_src[k]);
      ho[k].src_data = sp->data;
      ho[k].serials = sp->serials;
      ho[k].src_heap = !sp->inl && sp->cap > 0;
      ho[k].n = sp->size;
    }
    for (int g = 0; g < NP + NQ + NZ && g < 8; ++g) { const Snap *o = prev_snap(g); pd_data[g] = o ? o->data : nullptr; pd_heap[g] = o && !o->inl && o->cap > 0; }
    std::vector<uint32_t> all_serials;
    long visible = 0;
    for (int i = 0; i < NP; ++i) verify_slot(P[i], i, oi, all_serials, visible);
    for (int i = 0; i < NQ; ++i) verify_slot(Q[i], NP + i, oi, all_serials, visible);
    for (int i = 0; i < NZ; ++i) verify_slot(Z[i], NP + NQ + i, oi, all_serials, visible);
    if (g_cut) return;
    // C02: every live library-made element is visible in exactly one container
    if (EI<E>::kTracked) {
      if (g_live_lib != visible) {
        violation("C02,C09", "ledger.live_vs_visible", fmt("%ld element objects are alive but %ld are visible through the containers (%s)", g_live_lib, visible,
                                                       g_live_lib > visible ? "lost/leaked element" : "visible element is not alive"));
      }
      std::sort(all_serials.begin(), all_serials.end());
      for (size_t i = 1; i < all_serials.size(); ++i)
        if (all_serials[i] == all_serials[i - 1]) {
          violation("C02", "ledger.duplicate_identity", fmt("object #%u is visible in two slots (stale bitwise duplicate)", all_serials[i]));
          break;
        }
    }
    // C07 hand-over
    for (int k = 0; k < 2; ++k) {
      if (oi.ho_dst[k] < 0 || !ho[k].src_heap) continue;
      const Snap *dp = prev_snap(oi.ho_dst[k]);  // now updated
      ++n_handover;
      if (dp->data != ho[k].src_data) {
        violation("C07", "shadow.no_buffer_handover", fmt("slot %d should have taken over the heap buffer of slot %d (move/swap of heap-backed vectors) but data() differs", oi.ho_dst[k], oi.ho_src[k]));
      } else if (EI<E>::kTracked) {
        if (dp->serials != ho[k].serials) violation("C07", "shadow.handover_elements_changed", "elements changed identity during a buffer hand-over");
        else
          for (size_t i = 0; i < dp->serials.size(); ++i)
            if (g_obj[dp->serials[i]].stamp == g_stamp) {
              violation("C07", "shadow.handover_element_event", fmt("an element operation was performed on element %zu during a buffer hand-over", i));
              break;
            }
      }
    }
    // C05: no allocator request while every operand is (and stays) entitled
    if (all_entitled) {
      ++n_entitled_calls;
      if (reqs() != 0) violation("C05", "inline.allocation", fmt("%ju allocator/malloc request(s) during a call whose operands all stay within their inline capacity", static_cast<uintmax_t>(reqs())));
    } else if (reqs() != 0) {
      ++n_unentitled_allocs;
    }
    if (I::kFixed && !(oi.operands & ~((1u << NP) - 1)) && g_hooked_mallocs - 0 != 0) {
      // (Fixed-only calls: all_entitled covers it; kept for clarity)
    }
  }

  // ------------------------------------------------------------------ entitlement shadow (C05), statement taken literally
  template <class V>
  static bool inline_type() { return VecInfo<V>::kFixed || VecInfo<V>::kSmall; }
  void ent_size_rule(Slot<Vec> &a) {
    if (I::kSmall && a.model.size() > I::kN) a.entitled = false;
  }

  // ------------------------------------------------------------------ construction forms
  template <class V>
  void construct_default(Slot<V> &s) {
    create(s);
    window([&] { s.obj = new (s.raw) V(); });
    s.entitled = true;
  }

  void reconstruct(int ai) {
    Slot<Vec> &a = P[ai];
    std::string before = a.obj ? st(a) : "none";
    if (a.obj) {
      set_op("~dtor", before, "-", fmt("P%d", ai));
      destroy(a);
    }
    int form = rng.below(I::kSmall ? 10 : 9);
    if (!EI<E>::kCopyable && (form == 2 || form == 3 || form == 4 || form == 5 || form == 6)) form = 0;
    create(a);
    OpInfo oi;
    oi.operands = bitP(ai);
    bool all_ent = true;
    a.entitled = true;
    uintmax_t room = lim();
    switch (form) {
      default:
      case 0: {
        set_op("ctor()", "-", "-", fmt("P%d", ai));
        window([&] { a.obj = new (a.raw) Vec(); });
        break;
      }
      case 1: {
        uintmax_t n = pick_len(room);
        set_op("ctor(n)", "-", lencls(n), fmt("P%d n=%ju", ai, n));
        window([&] { a.obj = new (a.raw) Vec(static_cast<SizeT>(n)); });
        a.model.assign(n, EI<E>::norm(Val(0, 0)));
        break;
      }
      case 2: {
        uintmax_t n = pick_len(room);
        Val v = nv();
        set_op("ctor(n,v)", "-", lencls(n), fmt("P%d n=%ju v=%d.%u", ai, n, v.key, v.pay));
        make_hold(v);
        window([&] { a.obj = new (a.raw) Vec(static_cast<SizeT>(n), *hold); });
        drop_hold();
        a.model.assign(n, v);
        break;
      }
      case 3: {
        uintmax_t n = pick_len(room);
        std::vector<Val> vals = gen_vals(n);
        int kind = pick_kind();
        set_op("ctor(range)", "-", std::string(rkname(kind)) + "," + lencls(n), fmt("P%d %s %s", ai, rkname(kind), vals_str(vals).c_str()));
        with_range<E>(kind, vals, [&](auto f, auto l) { window([&] { a.obj = new (a.raw) Vec(f, l); }); });
        a.model = vals;
        break;
      }
      case 4: {
        uintmax_t n = std::min<uintmax_t>(rng.below(4), room);
        std::vector<Val> vals = gen_vals(n);
        set_op("ctor(il)", "-", lencls(n), fmt("P%d %s", ai, vals_str(vals).c_str()));
        with_il(vals, [&](std::initializer_list<E> il) { window([&] { a.obj = new (a.raw) Vec(il); }); });
        a.model = vals;
        break;
      }
      case 5:
      case 6: {
        int bi = other(ai);
        Slot<Vec> &b = P[bi];
        set_op(form == 5 ? "ctor(copy)" : "ctor(copy,alloc)", st(b), "-", fmt("P%d from P%d", ai, bi));
        oi.operands |= bitP(bi);
        all_ent = b.entitled;
        if (form == 5) window([&] { a.obj = new (a.raw) Vec(*b.obj); });
        else window([&] { a.obj = new (a.raw) Vec(*b.obj, alloc_arg()); });
        a.model = b.model;
        break;
      }
      case 7:
      case 8: {
        int bi = other(ai);
        Slot<Vec> &b = P[bi];
        set_op(form == 7 ? "ctor(move)" : "ctor(move,alloc)", st(b), "-", fmt("P%d from P%d", ai, bi));
        oi.operands |= bitP(bi);
        oi.exempt |= bitP(bi);
        if (!I::kFixed) { oi.ho_dst[0] = ai; oi.ho_src[0] = bi; }
        if (form == 7) window([&] { a.obj = new (a.raw) Vec(std::move(*b.obj)); });
        else window([&] { a.obj = new (a.raw) Vec(std::move(*b.obj), alloc_arg()); });
        a.model = b.model;
        b.model.clear();
        a.entitled = b.entitled;
        b.entitled = true;
        all_ent = a.entitled;
        break;
      }
      case 9: {  // SmallVector(amc::vector&&)
        Slot<VecZ> &z = Z[0];
        set_op("ctor(vector&&)", st(z), "-", fmt("P%d from Z0 size=%zu cap=%ju", ai, z.model.size(), z.prev.cap));
        oi.operands |= bitZ();
        oi.exempt |= bitZ();
        bool adopts = z.prev.cap != 0;
        adopt_from_z(a, z);
        a.model = z.model;
        z.model.clear();
        a.entitled = !adopts;
        all_ent = false;
        break;
      }
    }
    if (threw) {
      violation("C01", "model.unexpected_exception", fmt("construction threw %s", threw_what.c_str()));
      return;
    }
    ent_size_rule(a);
    all_ent = all_ent && a.entitled;
    verify(oi, all_ent && (I::kSmall || I::kFixed));
  }

  template <class Z_ = VecZ>
  typename std::enable_if<!std::is_same<Z_, Vec>::value>::type adopt_from_z(Slot<Vec> &a, Slot<VecZ> &z) {
    window([&] { a.obj = new (a.raw) Vec(std::move(*z.obj)); });
  }
  template <class Z_ = VecZ>
  typename std::enable_if<std::is_same<Z_, Vec>::value>::type adopt_from_z(Slot<Vec> &, Slot<VecZ> &) {}

  template <class A_ = Alloc>
  static typename std::enable_if<!std::is_same<A_, amc::vec::EmptyAlloc>::value, A_>::type alloc_arg() { return A_(); }
  template <class A_ = Alloc>
  static typename std::enable_if<std::is_same<A_, amc::vec::EmptyAlloc>::value, A_>::type alloc_arg() { return A_(); }

  E *hold = nullptr;
  bool keep_sig = false;    // teardown after a violation keeps the signature of the call that caused it
  bool multi_grow = false;  // single-pass range: the vector may grow several times within the call
  bool skip_alloc_check = false;  // the call threw a (legitimate) exception: the exception object itself is malloc'ed
  void drop_hold() {
    MonScope m;
    delete hold;
    hold = nullptr;
  }
  E *make_hold(Val v) {
    MonScope m;
    hold = new E(Mk<E>::make(v));
    return hold;
  }

  template <class F>
  void with_il(const std::vector<Val> &vals, F &&f) {
    // initializer lists need literal sizes
    switch (vals.size()) {
      case 0: { std::initializer_list<E> il = {}; f(il); break; }
      case 1: { g_monitor_depth++; std::initializer_list<E> il = {Mk<E>::make(vals[0])}; g_monitor_depth--; f(il); g_monitor_depth++; }
        g_monitor_depth--; break;
      case 2: { g_monitor_depth++; std::initializer_list<E> il = {Mk<E>::make(vals[0]), Mk<E>::make(vals[1])}; g_monitor_depth--; f(il); g_monitor_depth++; }
        g_monitor_depth--; break;
      default: { g_monitor_depth++; std::initializer_list<E> il = {Mk<E>::make(vals[0]), Mk<E>::make(vals[1]), Mk<E>::make(vals[2])}; g_monitor_depth--; f(il); g_monitor_depth++; }
        g_monitor_depth--; break;
    }
  }

  std::vector<Val> gen_vals(uintmax_t n) {
    std::vector<Val> v;
    for (uintmax_t i = 0; i < n; ++i) v.push_back(nv());
    return v;
  }
  int other(int ai) { int b = rng.below(NP - 1); return b >= ai ? b + 1 : b; }
  uintmax_t pick_len(uintmax_t room) {
    uintmax_t c[] = {0, 1, 2, 3, I::kN, I::kN + 1, I::kN > 0 ? I::kN - 1 : 0, static_cast<uintmax_t>(rng.below(12))};
    uintmax_t n = c[rng.below(8)];
    return std::min(n, room);
  }
  static std::string lencls(uintmax_t n) {
    if (n == 0) return "n=0";
    if (I::kN && n == I::kN) return "n=N";
    if (I::kN && n == I::kN + 1) return "n=N+1";
    if (I::kN && n < I::kN) return "n<N";
    return "n>N";
  }
  // count of elements to add to a container currently holding sz with capacity cap
  uintmax_t pick_count(const Slot<Vec> &a) {
    uintmax_t sz = a.model.size(), cap = a.prev.cap, room = lim() - std::min<uintmax_t>(lim(), sz);
    uintmax_t c[14];
    int n = 0;
    c[n++] = 0; c[n++] = 1; c[n++] = 2; c[n++] = 3;
    if (scale > 1) { c[n++] = rng.below(8) * scale; c[n++] = rng.below(static_cast<uint32_t>(kMaxLen * scale)); c[n++] = room; c[n++] = room / 2; }
    if (I::kN >= sz) { c[n++] = I::kN - sz; c[n++] = I::kN - sz + 1; }
    if (cap >= sz) { c[n++] = cap - sz; c[n++] = cap - sz + 1; }
    c[n++] = rng.below(8);
    uintmax_t r = c[rng.below(n)];
    return std::min(r, room);
  }
  std::string cntcls(const Slot<Vec> &a, uintmax_t cnt) {
    uintmax_t sz = a.model.size(), cap = a.prev.cap;
    std::string s = cnt == 0 ? "c=0" : cnt == 1 ? "c=1" : "c>1";
    s += sz + cnt <= cap ? (sz + cnt == cap ? ",fills" : ",fits") : ",grows";
    return s;
  }
  uintmax_t pick_pos(const Slot<Vec> &a) {
    uintmax_t sz = a.model.size();
    uintmax_t c[] = {0, 1, sz / 2, sz ? sz - 1 : 0, sz};
    return std::min(c[rng.below(5)], sz);
  }
  static std::string poscls(uintmax_t pos, uintmax_t sz) { return pos == sz ? "end" : pos == 0 ? "begin" : "mid"; }

  bool all_ent2(const Slot<Vec> &a, bool before) { return (I::kSmall || I::kFixed) && before && a.entitled; }

  // ------------------------------------------------------------------ single-container mutations
  void op_mutate(int ai) {
    Slot<Vec> &a = P[ai];
    Vec &v = *a.obj;
    std::vector<Val> &mo = a.model;
    const uintmax_t sz = mo.size();
    const uintmax_t room = lim() - std::min<uintmax_t>(lim(), sz);
    OpInfo oi;
    oi.operands = bitP(ai);
    oi.primary = ai;
    const bool ent_before = a.entitled;
    const std::string sta = st(a);
    int op = rng.below(31);
    long ret_idx = -2, exp_idx = -2;
    threw = false;
    multi_grow = false;
    switch (op) {
      case 30: {
        // narrow size types: fill the vector up to exactly max_size() (size == capacity == the maximum of the size_type is a legal state
        // whose encoding sits next to the special values of the size words); the following operations of the history shrink it again
        if (sizeof(SizeT) != 1 || I::kFixed || !rng.chance(1, 2)) return;
        const uintmax_t n = I::limit();
        const bool exact = rng.chance(1, 2);
        set_op(exact ? "reserve(max)+resize(max_size)" : "resize(max_size)", sta, "fills", fmt("P%d n=%ju", ai, n));
        oi.point = sz;
        oi.grow_ok = bitP(ai);
        if (exact) window([&] { v.reserve(static_cast<SizeT>(n)); });
        if (!threw) window([&] { v.resize(static_cast<SizeT>(n)); });
        mo.resize(n, EI<E>::norm(Val(0, 0)));
        a.entitled = false;
        break;
      }
      case 0: {  // push_back(const&)
        if (!room || !EI<E>::kCopyable) return;
        Val x = nv();
        set_op("push_back(const&)", sta, cntcls(a, 1), fmt("P%d %d.%u", ai, x.key, x.pay));
        E *e = make_hold(x);
        oi.point = sz;
        window([&] { v.push_back(*e); });
        drop_hold();
        mo.push_back(x);
        break;
      }
      case 1: {
        if (!room) return;
        Val x = nv();
        set_op("push_back(&&)", sta, cntcls(a, 1), fmt("P%d %d.%u", ai, x.key, x.pay));
        E *e = make_hold(x);
        oi.point = sz;
        window([&] { v.push_back(std::move(*e)); });
        drop_hold();
        mo.push_back(x);
        break;
      }
      case 2: {
        if (!room) return;
        Val x = nv();
        set_op("emplace_back", sta, cntcls(a, 1), fmt("P%d %d.%u", ai, x.key, x.pay));
        oi.point = sz;
        const E *r = nullptr;
        window([&] { r = &Emp<Vec>::back(v, x); });
        mo.push_back(x);
        if (!threw) {
          MonScope m;
          if (r != v.data() + sz) violation("C01", "model.emplace_back_ref", "emplace_back returned a reference that is not the new last element");
        }
        break;
      }
      case 3: {
        if (!room) return;
        Val x = nv();
        uintmax_t pos = pick_pos(a);
        set_op("emplace", sta, poscls(pos, sz) + "," + cntcls(a, 1), fmt("P%d pos=%ju %d.%u", ai, pos, x.key, x.pay));
        oi.point = pos;
        window([&] { { auto it_ = Emp<Vec>::at(v, v.begin() + pos, x); ret_idx = it_ - v.begin(); } });
        mo.insert(mo.begin() + pos, x);
        exp_idx = pos;
        break;
      }
      case 4: {
        if (!room || !EI<E>::kCopyable) return;
        Val x = nv();
        uintmax_t pos = pick_pos(a);
        set_op("insert(pos,const&)", sta, poscls(pos, sz) + "," + cntcls(a, 1), fmt("P%d pos=%ju %d.%u", ai, pos, x.key, x.pay));
        E *e = make_hold(x);
        oi.point = pos;
        window([&] { { auto it_ = v.insert(v.begin() + pos, *e); ret_idx = it_ - v.begin(); } });
        drop_hold();
        mo.insert(mo.begin() + pos, x);
        exp_idx = pos;
        break;
      }
      case 5: {
        if (!room) return;
        Val x = nv();
        uintmax_t pos = pick_pos(a);
        set_op("insert(pos,&&)", sta, poscls(pos, sz) + "," + cntcls(a, 1), fmt("P%d pos=%ju %d.%u", ai, pos, x.key, x.pay));
        E *e = make_hold(x);
        oi.point = pos;
        window([&] { { auto it_ = v.insert(v.begin() + pos, std::move(*e)); ret_idx = it_ - v.begin(); } });
        drop_hold();
        mo.insert(mo.begin() + pos, x);
        exp_idx = pos;
        break;
      }
      case 6: {
        if (!EI<E>::kCopyable) return;
        uintmax_t cnt = pick_count(a);
        Val x = nv();
        uintmax_t pos = pick_pos(a);
        set_op("insert(pos,n,v)", sta, poscls(pos, sz) + "," + cntcls(a, cnt), fmt("P%d pos=%ju n=%ju %d.%u", ai, pos, cnt, x.key, x.pay));
        E *e = make_hold(x);
        oi.point = pos;
        window([&] { { auto it_ = v.insert(v.begin() + pos, static_cast<SizeT>(cnt), *e); ret_idx = it_ - v.begin(); } });
        drop_hold();
        mo.insert(mo.begin() + pos, cnt, x);
        exp_idx = pos;
        break;
      }
      case 7: {
        uintmax_t cnt = pick_count(a);
        std::vector<Val> vals = gen_vals(cnt);
        uintmax_t pos = pick_pos(a);
        int kind = pick_kind();
        set_op("insert(pos,range)", sta, std::string(rkname(kind)) + "," + poscls(pos, sz) + "," + cntcls(a, cnt),
               fmt("P%d pos=%ju %s %s", ai, pos, rkname(kind), vals_str(vals).c_str()));
        oi.point = pos;
        with_range<E>(kind, vals, [&](auto f, auto l) { window([&] { { auto it_ = v.insert(v.begin() + pos, f, l); ret_idx = it_ - v.begin(); } }); });
        mo.insert(mo.begin() + pos, vals.begin(), vals.end());
        exp_idx = pos;
        break;
      }
      case 8: {
        if (!EI<E>::kCopyable) return;
        uintmax_t cnt = std::min<uintmax_t>(std::min<uintmax_t>(pick_count(a), 3), room);
        std::vector<Val> vals = gen_vals(cnt);
        uintmax_t pos = pick_pos(a);
        set_op("insert(pos,il)", sta, poscls(pos, sz) + "," + cntcls(a, cnt), fmt("P%d pos=%ju %s", ai, pos, vals_str(vals).c_str()));
        oi.point = pos;
        with_il(vals, [&](std::initializer_list<E> il) { window([&] { { auto it_ = v.insert(v.begin() + pos, il); ret_idx = it_ - v.begin(); } }); });
        mo.insert(mo.begin() + pos, vals.begin(), vals.end());
        exp_idx = pos;
        break;
      }
      case 9: {
        if (!sz) return;
        set_op("pop_back", sta, "-", fmt("P%d", ai));
        oi.point = sz - 1;
        window([&] { v.pop_back(); });
        mo.pop_back();
        break;
      }
      case 10: {
        if (!sz) return;
        set_op("pop_back_val", sta, "-", fmt("P%d", ai));
        oi.point = sz - 1;
        Val got;
        window([&] {
          E r = v.pop_back_val();
          g_in_call = false;
          MonScope m;
          got = EI<E>::val(r);
          adopt(r);
        });
        if (!threw) {
          MonScope m;
          if (!got.same(mo.back())) violation("C01", "model.pop_back_val", fmt("pop_back_val returned %d.%u, expected %d.%u", got.key, got.pay, mo.back().key, mo.back().pay));
        }
        mo.pop_back();
        break;
      }
      case 11: {
        if (!sz) return;
        uintmax_t pos = std::min(pick_pos(a), sz - 1);
        set_op("erase(pos)", sta, poscls(pos, sz - 1 == pos ? pos : sz), fmt("P%d pos=%ju", ai, pos));
        oi.point = pos;
        window([&] { { auto it_ = v.erase(v.begin() + pos); ret_idx = it_ - v.begin(); } });
        mo.erase(mo.begin() + pos);
        exp_idx = pos;
        break;
      }
      case 12: {
        uintmax_t f = pick_pos(a);
        uintmax_t l = f + (rng.chance(1, 3) ? 0 : rng.below(static_cast<uint32_t>(sz - f + 1)));
        set_op("erase(first,last)", sta, poscls(f, sz) + (l == f ? ",empty" : l == sz ? ",to-end" : ",inner"), fmt("P%d [%ju,%ju)", ai, f, l));
        oi.point = f;
        window([&] { { auto it_ = v.erase(v.begin() + f, v.begin() + l); ret_idx = it_ - v.begin(); } });
        mo.erase(mo.begin() + f, mo.begin() + l);
        exp_idx = f;
        break;
      }
      case 13: {
        set_op("clear", sta, "-", fmt("P%d", ai));
        oi.point = 0;
        window([&] { v.clear(); });
        mo.clear();
        break;
      }
      case 14: {
        uintmax_t n = rng.chance(1, 2) ? sz + pick_count(a) : rng.below(static_cast<uint32_t>(sz + 1));
        set_op("resize(n)", sta, n < sz ? "shrinks" : cntcls(a, n - sz), fmt("P%d n=%ju", ai, n));
        oi.point = std::min(n, sz);
        window([&] { v.resize(static_cast<SizeT>(n)); });
        mo.resize(n, EI<E>::norm(Val(0, 0)));
        break;
      }
      case 15: {
        if (!EI<E>::kCopyable) return;
        uintmax_t n = rng.chance(1, 2) ? sz + pick_count(a) : rng.below(static_cast<uint32_t>(sz + 1));
        Val x = nv();
        set_op("resize(n,v)", sta, n < sz ? "shrinks" : cntcls(a, n - sz), fmt("P%d n=%ju %d.%u", ai, n, x.key, x.pay));
        E *e = make_hold(x);
        oi.point = std::min(n, sz);
        window([&] { v.resize(static_cast<SizeT>(n), *e); });
        drop_hold();
        mo.resize(n, x);
        break;
      }
      case 16: {
        uintmax_t c[] = {0, sz, a.prev.cap, a.prev.cap + 1, I::kN, I::kN + 1, sz + rng.below(10)};
        uintmax_t n = std::min<uintmax_t>(c[rng.below(7)], I::kFixed ? I::kN : std::min<uintmax_t>(I::limit(), 60));
        // now and then a capacity that does not fit an 8-bit size_type (matters for swap2 with a partner of a narrower size_type)
        if (rng.chance(1, 8) && !I::kFixed && I::limit() >= 200) n = I::limit() >= 300 ? 300 : 200;  // beyond an unsigned / a signed 8-bit size_type
        set_op("reserve", sta, n <= a.prev.cap ? "within" : n >= 200 ? "beyond-8bit" : "beyond", fmt("P%d n=%ju", ai, n));
        oi.point = sz;
        if (n > a.prev.cap) oi.grow_ok |= bitP(ai);  // an explicit request for more capacity reallocates although the size fits
        window([&] { v.reserve(static_cast<SizeT>(n)); });
        if (I::kSmall && n > I::kN) a.entitled = false;
        if (!threw) {
          MonScope m;
          if (static_cast<uintmax_t>(v.capacity()) < n) violation("C07", "shadow.reserve_capacity", fmt("capacity() %ju < %ju after reserve", static_cast<uintmax_t>(v.capacity()), n));
        }
        break;
      }
      case 17: {
        set_op("shrink_to_fit", sta, "-", fmt("P%d", ai));
        oi.exempt |= bitP(ai);
        window([&] { v.shrink_to_fit(); });
        if (I::kSmall && sz <= I::kN) a.entitled = true;
        break;
      }
      case 18: {
        if (!EI<E>::kCopyable) return;
        uintmax_t n = rng.chance(1, 2) ? std::min(lim(), sz + pick_count(a)) : rng.below(static_cast<uint32_t>(sz + 2));
        n = std::min(n, lim());
        Val x = nv();
        set_op("assign(n,v)", sta, n <= sz ? "shrinks" : cntcls(a, n - sz), fmt("P%d n=%ju %d.%u", ai, n, x.key, x.pay));
        E *e = make_hold(x);
        oi.point = 0;
        window([&] { v.assign(static_cast<SizeT>(n), *e); });
        drop_hold();
        mo.assign(n, x);
        break;
      }
      case 19: {
        uintmax_t n = rng.chance(1, 2) ? std::min(lim(), sz + pick_count(a)) : rng.below(static_cast<uint32_t>(sz + 2));
        n = std::min(n, lim());
        std::vector<Val> vals = gen_vals(n);
        int kind = pick_kind();
        set_op("assign(range)", sta, std::string(rkname(kind)) + "," + (n <= sz ? "shrinks" : cntcls(a, n - sz)), fmt("P%d %s %s", ai, rkname(kind), vals_str(vals).c_str()));
        oi.point = 0;
        with_range<E>(kind, vals, [&](auto f, auto l) { window([&] { v.assign(f, l); }); });
        mo = vals;
        break;
      }
      case 20:
      case 21: {
        if (!EI<E>::kCopyable) return;
        uintmax_t n = std::min<uintmax_t>(rng.below(4), lim());
        std::vector<Val> vals = gen_vals(n);
        set_op(op == 20 ? "assign(il)" : "operator=(il)", sta, n <= sz ? "shrinks" : cntcls(a, n - sz), fmt("P%d %s", ai, vals_str(vals).c_str()));
        oi.point = 0;
        // 'v = {..}' selects Vector::operator=(Vector&&) on a temporary (the initializer_list overload of the base is hidden): it is a move
        if (op == 21) oi.exempt |= bitP(ai);
        if (op == 20) with_il(vals, [&](std::initializer_list<E> il) { window([&] { v.assign(il); }); });
        else with_il(vals, [&](std::initializer_list<E> il) { window([&] { v = il; }); });
        mo = vals;
        break;
      }
      case 22: {
        uintmax_t cnt = pick_count(a);
        std::vector<Val> vals = gen_vals(cnt);
        int kind = pick_kind();
        set_op("append(range)", sta, std::string(rkname(kind)) + "," + cntcls(a, cnt), fmt("P%d %s %s", ai, rkname(kind), vals_str(vals).c_str()));
        oi.point = sz;
        with_range<E>(kind, vals, [&](auto f, auto l) { window([&] { v.append(f, l); }); });
        mo.insert(mo.end(), vals.begin(), vals.end());
        break;
      }
      case 23: {
        uintmax_t cnt = pick_count(a);
        set_op("append(n)", sta, cntcls(a, cnt), fmt("P%d n=%ju", ai, cnt));
        oi.point = sz;
        window([&] { v.append(static_cast<SizeT>(cnt)); });
        mo.insert(mo.end(), cnt, EI<E>::norm(Val(0, 0)));
        break;
      }
      case 24: {
        if (!EI<E>::kCopyable) return;
        uintmax_t cnt = pick_count(a);
        Val x = nv();
        set_op("append(n,v)", sta, cntcls(a, cnt), fmt("P%d n=%ju %d.%u", ai, cnt, x.key, x.pay));
        E *e = make_hold(x);
        oi.point = sz;
        window([&] { v.append(static_cast<SizeT>(cnt), *e); });
        drop_hold();
        mo.insert(mo.end(), cnt, x);
        break;
      }
      case 25: {
        if (!EI<E>::kCopyable) return;
        uintmax_t cnt = std::min<uintmax_t>(std::min<uintmax_t>(pick_count(a), 3), room);
        std::vector<Val> vals = gen_vals(cnt);
        set_op("append(il)", sta, cntcls(a, cnt), fmt("P%d %s", ai, vals_str(vals).c_str()));
        oi.point = sz;
        with_il(vals, [&](std::initializer_list<E> il) { window([&] { v.append(il); }); });
        mo.insert(mo.end(), vals.begin(), vals.end());
        break;
      }
      case 26: {  // element access / at()
        set_op("access", sta, "-", fmt("P%d", ai));
        oi.point = sz;
        op_access(a);
        break;
      }
      case 27: {  // self copy-assignment, self swap
        if (!EI<E>::kCopyable) return;
        bool sw = rng.chance(1, 2);
        set_op(sw ? "swap(self)" : "operator=(self)", sta, "-", fmt("P%d", ai));
        oi.exempt |= bitP(ai);
        Vec &alias = v;
        if (sw) { g_selfswap_window = true; window([&] { v.swap(alias); }); g_selfswap_window = false; }
        else window([&] { v = alias; });
        break;
      }
      case 28: {
        if (!op_alias(ai, oi)) return;
        break;
      }
      case 29: {
        op_erase20(ai, oi);
        break;
      }
    }
    if (threw) {
      violation("C01", "model.unexpected_exception", fmt("operation threw %s although the result fits the container", threw_what.c_str()));
      return;
    }
    if (ret_idx != exp_idx) violation("C01", "model.returned_position", fmt("returned iterator at index %ld, std::vector returns %ld", ret_idx, exp_idx));
    ent_size_rule(a);
    verify(oi, all_ent2(a, ent_before) && !skip_alloc_check);
    skip_alloc_check = false;
  }

  int pick_kind() {
    int k = rng.below(RK_N);
    if (!EI<E>::kCopyable) k = RK_MOVE;
    multi_grow = k == RK_INPUT;
    return k;
  }
  template <class X>
  static void adopt(const X &) {}
  template <int K, int P>
  static void adopt(const Tracked<K, P> &t) { ledger_adopt(t); }

  void op_access(Slot<Vec> &a) {
    Vec &v = *a.obj;
    const Vec &cv = v;
    std::vector<Val> &mo = a.model;
    const uintmax_t sz = mo.size();
    Val f, b, at0, idx;
    uintmax_t i = sz ? rng.below(static_cast<uint32_t>(sz)) : 0;
    bool at_threw = false, at_bad_threw = false;
    skip_alloc_check = true;
    uintmax_t bad = sz + rng.below(3);
    if (bad > I::limit()) bad = sz;
    uintmax_t itcount = 0, ritcount = 0;
    bool observers_ok = true;
    window([&] {
      if (sz) {
        f = EI<E>::val(cv.front());
        b = EI<E>::val(v.back());
        idx = EI<E>::val(cv[static_cast<SizeT>(i)]);
        try { at0 = EI<E>::val(v.at(static_cast<SizeT>(i))); } catch (const std::out_of_range &) { at_threw = true; }
      }
      try { (void)cv.at(static_cast<SizeT>(bad)); } catch (const std::out_of_range &) { at_bad_threw = true; }
      if (at_bad_threw) { at_bad_threw = false; try { (void)v.at(static_cast<SizeT>(bad)); } catch (const std::out_of_range &) { at_bad_threw = true; } }
      for (auto it = cv.begin(); it != cv.end(); ++it) ++itcount;
      for (auto it = cv.rbegin(); it != cv.rend(); ++it) ++ritcount;
      // the remaining observers: const / non-const / c-prefixed iterators agree, data() is begin(), max_size() bounds capacity()
      unsigned long csum = 0, msum = 0, crsum = 0;
      for (auto it = cv.cbegin(); it != cv.cend(); ++it) csum = csum * 31u + static_cast<unsigned long>(EI<E>::val(*it).key);
      for (auto it = v.begin(); it != v.end(); ++it) msum = msum * 31u + static_cast<unsigned long>(EI<E>::val(*it).key);
      for (auto it = cv.crbegin(); it != cv.crend(); ++it) crsum += static_cast<unsigned long>(EI<E>::val(*it).key);
      unsigned long fsum = 0;
      for (auto it = v.rbegin(); it != v.rend(); ++it) fsum += static_cast<unsigned long>(EI<E>::val(*it).key);
      observers_ok = csum == msum && crsum == fsum && cv.data() == cv.begin() && v.data() == v.begin() && v.end() - v.begin() == static_cast<ptrdiff_t>(v.size()) &&
                     static_cast<uintmax_t>(cv.max_size()) >= static_cast<uintmax_t>(cv.capacity()) && (cv.cend() - cv.cbegin()) == static_cast<ptrdiff_t>(cv.size());
      (void)cv.get_allocator();
    });
    MonScope m;
    if (threw) return;
    if (sz) {
      if (!f.same(mo.front()) || !b.same(mo.back()) || !idx.same(mo[i]) || at_threw || !at0.same(mo[i]))
        violation("C01", "model.element_access", "front/back/operator[]/at disagree with the model");
    }
    if (!at_bad_threw) violation("C01,C08", "model.at_out_of_range", fmt("at(%ju) with size %ju did not throw std::out_of_range", bad, sz));
    if (itcount != sz || ritcount != sz) violation("C01", "model.iteration_count", "begin..end / rbegin..rend do not span size() elements");
    if (!observers_ok) violation("C01", "model.observers_disagree", "const/non-const/c-prefixed iterators, data(), size() or max_size() disagree with each other");
  }

  // aliasing calls (C10 embedded in histories)
  bool op_alias(int ai, OpInfo &oi) {
    Slot<Vec> &a = P[ai];
    Vec &v = *a.obj;
    std::vector<Val> &mo = a.model;
    const uintmax_t sz = mo.size();
    if (!sz || !EI<E>::kCopyable) return false;
    const uintmax_t room = lim() - std::min<uintmax_t>(lim(), sz);
    uintmax_t src = rng.below(static_cast<uint32_t>(sz));
    uintmax_t pos = pick_pos(a);
    Val x = mo[src];
    int form = rng.below(FieldAlias<E>::kAvailable ? 11 : 9);
    std::string rel = src < pos ? "src<pos" : "src>=pos";
    const std::string sta = st(a);
    long ret_idx = -2, exp_idx = -2;
    switch (form) {
      case 0:
        if (!room) return false;
        set_op("alias:push_back(v[i])", sta, cntcls(a, 1), fmt("P%d src=%ju", ai, src));
        oi.point = sz;
        window([&] { v.push_back(v[static_cast<SizeT>(src)]); });
        mo.push_back(x);
        break;
      case 1:
        if (!room) return false;
        set_op("alias:insert(pos,v[i])", sta, rel + "," + cntcls(a, 1), fmt("P%d pos=%ju src=%ju", ai, pos, src));
        oi.point = std::min(pos, src);
        window([&] { { auto it_ = v.insert(v.begin() + pos, v[static_cast<SizeT>(src)]); ret_idx = it_ - v.begin(); } });
        mo.insert(mo.begin() + pos, x);
        exp_idx = pos;
        break;
      case 2: {
        uintmax_t cnt = pick_count(a);
        set_op("alias:insert(pos,n,v[i])", sta, rel + "," + cntcls(a, cnt), fmt("P%d pos=%ju n=%ju src=%ju", ai, pos, cnt, src));
        oi.point = std::min(pos, src);
        window([&] { { auto it_ = v.insert(v.begin() + pos, static_cast<SizeT>(cnt), v[static_cast<SizeT>(src)]); ret_idx = it_ - v.begin(); } });
        mo.insert(mo.begin() + pos, cnt, x);
        exp_idx = pos;
        break;
      }
      case 3:
        if (!room) return false;
        set_op("alias:emplace(pos,v[i])", sta, rel + "," + cntcls(a, 1), fmt("P%d pos=%ju src=%ju", ai, pos, src));
        oi.point = std::min(pos, src);
        window([&] { { auto it_ = v.emplace(v.begin() + pos, v[static_cast<SizeT>(src)]); ret_idx = it_ - v.begin(); } });
        mo.insert(mo.begin() + pos, x);
        exp_idx = pos;
        break;
      case 4:
        if (!room) return false;
        set_op("alias:emplace(pos,&v[i])", sta, rel + "," + cntcls(a, 1), fmt("P%d pos=%ju src=%ju", ai, pos, src));
        oi.point = std::min(pos, src);
        window([&] { ret_idx = emplace_from_ptr(v, pos, src); });
        mo.insert(mo.begin() + pos, x);
        exp_idx = pos;
        break;
      case 5:
        if (!room) return false;
        set_op("alias:emplace_back(v[i])", sta, cntcls(a, 1), fmt("P%d src=%ju", ai, src));
        oi.point = sz;
        window([&] { v.emplace_back(v[static_cast<SizeT>(src)]); });
        mo.push_back(x);
        break;
      case 6: {
        uintmax_t n = sz + pick_count(a);
        set_op("alias:resize(n,v[i])", sta, cntcls(a, n - sz), fmt("P%d n=%ju src=%ju", ai, n, src));
        oi.point = sz;
        window([&] { v.resize(static_cast<SizeT>(n), v[static_cast<SizeT>(src)]); });
        mo.resize(n, x);
        break;
      }
      case 7: {
        uintmax_t n = rng.chance(1, 2) ? sz + pick_count(a) : rng.below(static_cast<uint32_t>(sz + 1));
        set_op("alias:assign(n,v[i])", sta, n <= sz ? "shrinks" : cntcls(a, n - sz), fmt("P%d n=%ju src=%ju", ai, n, src));
        oi.point = 0;
        window([&] { v.assign(static_cast<SizeT>(n), v[static_cast<SizeT>(src)]); });
        mo.assign(n, x);
        break;
      }
      case 8: {
        uintmax_t cnt = pick_count(a);
        set_op("alias:append(n,v[i])", sta, cntcls(a, cnt), fmt("P%d n=%ju src=%ju", ai, cnt, src));
        oi.point = sz;
        window([&] { v.append(static_cast<SizeT>(cnt), v[static_cast<SizeT>(src)]); });
        mo.insert(mo.end(), cnt, x);
        break;
      }
      case 9:
        if (!room) return false;
        set_op("alias:emplace(pos,v[i].key,v[i].pay)", sta, rel + "," + cntcls(a, 1), fmt("P%d pos=%ju src=%ju", ai, pos, src));
        oi.point = std::min(pos, src);
        window([&] { ret_idx = FieldAlias<E>::emplace(v, v.begin() + pos, src); });
        mo.insert(mo.begin() + pos, x);
        exp_idx = pos;
        break;
      case 10:
        if (!room) return false;
        set_op("alias:emplace_back(v[i].key,v[i].pay)", sta, cntcls(a, 1), fmt("P%d src=%ju", ai, src));
        oi.point = sz;
        window([&] { FieldAlias<E>::emplace_back(v, src); });
        mo.push_back(x);
        break;
    }
    if (!threw && ret_idx != exp_idx) violation("C01,C10", "model.returned_position", fmt("returned iterator at index %ld, expected %ld", ret_idx, exp_idx));
    return true;
  }

  // emplace(pos, pointer-to-own-element): the class element types have a constructor from a pointer; raw arithmetic types are emplaced from the value
  template <class V_ = Vec>
  static typename std::enable_if<!std::is_arithmetic<typename V_::value_type>::value, long>::type emplace_from_ptr(V_ &v, uintmax_t pos, uintmax_t src) {
    auto it_ = v.emplace(v.begin() + pos, static_cast<const E *>(&v[static_cast<SizeT>(src)]));
    return it_ - v.begin();
  }
  template <class V_ = Vec>
  static typename std::enable_if<std::is_arithmetic<typename V_::value_type>::value, long>::type emplace_from_ptr(V_ &v, uintmax_t pos, uintmax_t src) {
    auto it_ = v.emplace(v.begin() + pos, v[static_cast<SizeT>(src)]);
    return it_ - v.begin();
  }

  void op_erase20(int ai, OpInfo &oi) {
    Slot<Vec> &a = P[ai];
#if __cplusplus >= 202002L
    Vec &v = *a.obj;
    std::vector<Val> &mo = a.model;
    int key = rng.below(6);
    bool pred = rng.chance(1, 2);
    set_op(pred ? "erase_if" : "erase(c,value)", st(a), "-", fmt("P%d key=%d", ai, key));
    oi.point = 0;
    for (size_t i = 0; i < mo.size(); ++i) if (mo[i].key == key) { oi.point = static_cast<long>(i); break; } else oi.point = static_cast<long>(i + 1);
    uintmax_t r = 0, exp = 0;
    if (pred) window([&] { r = erase_if(v, [key](const E &e) { return EI<E>::val(e).key == key; }); });
    else {
      E *e = make_hold(Val(key, 0));
      window([&] { r = erase(v, *e); });
      drop_hold();
    }
    for (size_t i = 0; i < mo.size();) if (mo[i].key == key) { mo.erase(mo.begin() + i); ++exp; } else ++i;
    if (!threw && r != exp) violation("C01", "model.erase_count", "erase/erase_if returned a wrong count");
#else
    set_op("access", st(a), "-", "");
    oi.point = static_cast<long>(a.model.size());
    op_access(a);
#endif
  }

  // ------------------------------------------------------------------ two-container operations on the same type
  void op_pair(int ai) {
    int bi = other(ai);
    Slot<Vec> &a = P[ai], &b = P[bi];
    OpInfo oi;
    oi.operands = bitP(ai) | bitP(bi);
    const bool ea = a.entitled, eb = b.entitled;
    bool all_ent = false;
    const std::string sts = st(a) + "|" + st(b);
    std::string szrel = a.model.size() == b.model.size() ? "eq" : a.model.size() < b.model.size() ? "lt" : "gt";
    int op = rng.below(6);
    if (!EI<E>::kCopyable && op == 0) op = 1;
    switch (op) {
      case 0: {  // copy assignment
        if (b.model.size() > I::limit()) return;
        set_op("operator=(const&)", sts, szrel, fmt("P%d = P%d", ai, bi));
        oi.primary = ai;
        oi.point = 0;
        window([&] { *a.obj = *b.obj; });
        a.model = b.model;
        ent_size_rule(a);
        all_ent = ea && eb && a.entitled;
        break;
      }
      case 1: {  // move assignment
        set_op("operator=(&&)", sts, szrel, fmt("P%d = move(P%d)", ai, bi));
        oi.exempt |= bitP(ai) | bitP(bi);
        if (!I::kFixed) { oi.ho_dst[0] = ai; oi.ho_src[0] = bi; }
        window([&] { *a.obj = std::move(*b.obj); });
        a.model = b.model;
        b.model.clear();
        if (eb) { /* a keeps whatever it had */ } else a.entitled = false;
        b.entitled = true;
        all_ent = ea && eb;
        break;
      }
      case 2:
      case 3: {
        set_op(op == 2 ? "swap(member)" : "swap(free)", sts, szrel, fmt("P%d <-> P%d", ai, bi));
        oi.exempt |= bitP(ai) | bitP(bi);
        if (!I::kFixed && !a.prev.inl && a.prev.cap > 0 && !b.prev.inl && b.prev.cap > 0) {
          oi.ho_dst[0] = ai; oi.ho_src[0] = bi; oi.ho_dst[1] = bi; oi.ho_src[1] = ai;
        }
        if (op == 2) window([&] { a.obj->swap(*b.obj); });
        else window([&] { using std::swap; swap(*a.obj, *b.obj); });
        a.model.swap(b.model);
        a.entitled = b.entitled = ea && eb;
        all_ent = ea && eb;
        break;
      }
      case 4: {  // comparisons
        // one time in four the vector is compared with itself: identity is not equality when an element is not equal to itself (NaN)
        const bool self = rng.chance(1, 4);
        set_op("compare", self ? st(a) : sts, self ? "self" : szrel, fmt("P%d ? P%d", ai, self ? ai : bi));
        bool r[6] = {0, 0, 0, 0, 0, 0};
        window([&] {
          const Vec &x = *a.obj, &y = self ? *a.obj : *b.obj;
          r[0] = x == y; r[1] = x != y; r[2] = x < y; r[3] = x <= y; r[4] = x > y; r[5] = x >= y;
        });
        MonScope m;
        const std::vector<Val> &x = a.model, &y = self ? a.model : b.model;
        bool e[6] = {x == y, x != y, x < y, x <= y, x > y, x >= y};
        for (int i = 0; i < 6; ++i)
          if (!threw && r[i] != e[i]) { violation("C01", "model.comparison", fmt("comparison operator #%d gives %d, std::vector gives %d", i, r[i], e[i])); break; }
        all_ent = ea && eb;
        break;
      }
      case 5: {  // swap2 between same type
        set_op("swap2(same)", sts, szrel, fmt("P%d <-> P%d", ai, bi));
        oi.exempt |= bitP(ai) | bitP(bi);
        window([&] { a.obj->swap2(*b.obj); });
        a.model.swap(b.model);
        a.entitled = b.entitled = ea && eb;
        all_ent = ea && eb;
        break;
      }
    }
    if (threw) { violation("C01", "model.unexpected_exception", fmt("operation threw %s", threw_what.c_str())); return; }
    verify(oi, all_ent && (I::kSmall || I::kFixed));
  }

  // ------------------------------------------------------------------ swap2 with another flavour, and keeping the partner pools lively
  template <class V>
  void simple_mutate(Slot<V> &s, int gid, const char *pname) {
    typedef VecInfo<V> VI;
    V &v = *s.obj;
    OpInfo oi;
    oi.operands = 1u << gid;
    oi.primary = gid;
    uintmax_t sz = s.model.size();
    uintmax_t room = std::min<uintmax_t>(VI::limit(), kMaxLen * scale) - std::min<uintmax_t>(std::min<uintmax_t>(VI::limit(), kMaxLen * scale), sz);
    int op = rng.below(7);
    const std::string sta = state_class<V>(s.prev);
    switch (op) {
      case 0: case 1: {
        if (!room) return;
        Val x = nv();
        set_op("partner:emplace_back", sta, "-", fmt("%s %d.%u", pname, x.key, x.pay));
        oi.point = sz;
        window([&] { Emp<V>::back(v, x); });
        s.model.push_back(x);
        break;
      }
      case 2: {
        uintmax_t c[] = {1, 2, VI::kN > sz ? VI::kN - sz : 0, VI::kN + 1 > sz ? VI::kN + 1 - sz : 0, rng.below(8)};
        uintmax_t cnt = std::min(c[rng.below(5)], room);
        std::vector<Val> vals = gen_vals(cnt);
        set_op("partner:append(range)", sta, "-", fmt("%s %s", pname, vals_str(vals).c_str()));
        oi.point = sz;
        with_range<E>(RK_MOVE, vals, [&](auto f, auto l) { window([&] { v.append(f, l); }); });
        s.model.insert(s.model.end(), vals.begin(), vals.end());
        break;
      }
      case 3: {
        if (!sz) return;
        set_op("partner:pop_back", sta, "-", pname);
        oi.point = sz - 1;
        window([&] { v.pop_back(); });
        s.model.pop_back();
        break;
      }
      case 4: {
        set_op("partner:clear", sta, "-", pname);
        oi.point = 0;
        window([&] { v.clear(); });
        s.model.clear();
        break;
      }
      case 5: {
        set_op("partner:shrink_to_fit", sta, "-", pname);
        oi.exempt |= 1u << gid;
        window([&] { v.shrink_to_fit(); });
        if (VI::kSmall && sz <= VI::kN) s.entitled = true;
        break;
      }
      case 6: {
        uintmax_t n = std::min<uintmax_t>(sz + rng.below(6), VI::kFixed ? VI::kN : std::min<uintmax_t>(VI::limit(), 60));
        if (rng.chance(1, 4) && !VI::kFixed && VI::limit() >= 200) n = VI::limit() >= 300 ? 300 : 200;
        set_op("partner:reserve", sta, n >= 200 ? "beyond-8bit" : "-", fmt("%s n=%ju", pname, n));
        oi.point = sz;
        if (n > s.prev.cap) oi.grow_ok |= 1u << gid;
        window([&] { v.reserve(static_cast<typename VI::size_type>(n)); });
        if (VI::kSmall && n > VI::kN) s.entitled = false;
        break;
      }
    }
    if (threw) { violation("C01", "model.unexpected_exception", fmt("partner operation threw %s", threw_what.c_str())); return; }
    if (VI::kSmall && s.model.size() > VI::kN) s.entitled = false;
    verify(oi, false);
  }

  void op_swap2(int ai) {
    Slot<Vec> &a = P[ai];
    int qi = rng.below(NQ);
    Slot<Vec2> &q = Q[qi];
    bool dir = rng.chance(1, 2);
    OpInfo oi;
    oi.operands = bitP(ai) | bitQ(qi);
    oi.exempt = oi.operands;
    const uintmax_t sa = a.model.size(), sq = q.model.size();
    const bool possible = sa <= I2::limit() && sq <= I::limit();
    // exceeding the N of a vector with the unchecked policy is outside the contract; exceeding the N of one with the throwing policy must throw,
    // whatever the policy of the other operand
    if ((sa > I2::limit() && I2::kUnchecked) || (sq > I::limit() && I::kUnchecked)) return;
    set_op(dir ? "swap2(P,Q)" : "swap2(Q,P)", st(a) + "|" + state_class<Vec2>(q.prev), possible ? (sa == sq ? "eq" : sa < sq ? "lt" : "gt") : "impossible",
           fmt("P%d(size %ju) <-> Q%d(size %ju)", ai, sa, qi, sq));
    // buffer exchange expected (C07): both heap-backed, same allocator type, each capacity representable in the other's size_type
    const bool expect_handover = possible && !I::kFixed && !I2::kFixed && std::is_same<typename I::alloc, typename I2::alloc>::value && !a.prev.inl && a.prev.cap > 0 && !q.prev.inl &&
                                 q.prev.cap > 0 && a.prev.cap <= static_cast<uintmax_t>(std::numeric_limits<typename I2::size_type>::max()) &&
                                 q.prev.cap <= static_cast<uintmax_t>(std::numeric_limits<SizeT>::max());
    if (expect_handover) { oi.ho_dst[0] = ai; oi.ho_src[0] = NP + qi; oi.ho_dst[1] = NP + qi; oi.ho_src[1] = ai; }
    if (dir) window([&] { a.obj->swap2(*q.obj); });
    else window([&] { q.obj->swap2(*a.obj); });
    if (possible) {
      if (threw) { violation("C13,C01", "swap2.unexpected_exception", fmt("swap2 threw %s although both contents fit the other side", threw_what.c_str())); return; }
      a.model.swap(q.model);
    } else {
      if (!threw) { violation("C13", "swap2.no_exception", "swap2 did not throw although the exchange is impossible"); return; }
      if (threw_what.find("out_of_range") == std::string::npos && threw_what.find("overflow_error") == std::string::npos && threw_what.find("length_error") == std::string::npos)
        violation("C13", "swap2.exception_type", fmt("impossible swap2 threw %s", threw_what.c_str()));
    }
    // entitlement: conservative (see DESIGN C05): kept only if the partner is an inline-type container that is itself entitled
    bool pe = I2::kFixed || (I2::kSmall && q.entitled);
    bool ae = I::kFixed || (I::kSmall && a.entitled);
    if (possible) {
      a.entitled = a.entitled && pe;
      q.entitled = q.entitled && ae;
      ent_size_rule(a);
      if (I2::kSmall && q.model.size() > I2::kN) q.entitled = false;
    }
    verify(oi, false);
  }

  void op_z() {
    if (NZ) simple_mutate(Z[0], NP + NQ, "Z0");
  }

  // sv = std::move(amc_vector): offered through the converting constructor (a temporary SmallVector adopts the buffer, then move assignment);
  // every state of the destination meets every state of the donor, in particular a donor that owns no buffer
  void op_assign_from_z(int ai) {
    if (!NZ) return;
    Slot<Vec> &a = P[ai];
    Slot<VecZ> &z = Z[0];
    OpInfo oi;
    oi.operands = bitP(ai) | bitZ();
    oi.exempt = bitP(ai) | bitZ();
    oi.primary = ai;
    oi.point = 0;
    set_op("operator=(vector&&)", st(a) + "|" + st(z), z.prev.cap == 0 ? "donor-without-buffer" : z.model.empty() ? "donor-empty-with-buffer" : "donor-with-elements",
           fmt("P%d = move(Z0) size=%zu cap=%ju", ai, z.model.size(), z.prev.cap));
    const bool adopts = z.prev.cap != 0;
    threw = false;
    assign_from_z(a, z);
    if (threw) { violation("C01", "model.unexpected_exception", fmt("assignment from an amc::vector threw %s", threw_what.c_str())); return; }
    a.model = z.model;
    z.model.clear();
    if (adopts) a.entitled = false;
    ent_size_rule(a);
    verify(oi, false);
    // a moved-from vector is valid but unspecified: bring the donor to a known state
    OpInfo oc;
    oc.operands = bitZ();
    oc.exempt = bitZ();
    set_op("partner:clear-after-move", st(z), "-", "Z0");
    window([&] { z.obj->clear(); });
    verify(oc, false);
  }
  template <class Z_ = VecZ>
  typename std::enable_if<!std::is_same<Z_, Vec>::value>::type assign_from_z(Slot<Vec> &a, Slot<VecZ> &z) {
    window([&] { *a.obj = std::move(*z.obj); });
  }
  template <class Z_ = VecZ>
  typename std::enable_if<std::is_same<Z_, Vec>::value>::type assign_from_z(Slot<Vec> &, Slot<VecZ> &) {}

  // ------------------------------------------------------------------ C14: relocation by raw byte copy
  template <class V>
  bool relocate(Slot<V> &s, int gid, const char *pname) {
    if (!amc::is_trivially_relocatable<V>::value) return false;
    MonScope m;
    set_op("RELOCATE", state_class<V>(s.prev), "-", pname);
    void *nraw = obj_alloc(sizeof(V), alignof(V), alignof(typename V::value_type) > 16);
    memcpy(nraw, s.raw, sizeof(V));
    memset(s.raw, 0xDD, sizeof(V));
    obj_free(s.raw, alignof(typename V::value_type) > 16);
    s.raw = nraw;
    s.obj = static_cast<V *>(nraw);
    ++s.relocs;
    ++n_reloc;
    // the object legitimately lives elsewhere now: rebase the "previous" snapshot for inline storage
    Snap now;
    take_snap(*s.obj, now);
    if (now.sane && !same_vals(now.vals, s.model)) violation("C14", "reloc.contents", fmt("slot %d contents differ right after the byte copy", gid));
    if (now.sane && now.cap != s.prev.cap) violation("C14", "reloc.capacity", "capacity differs right after the byte copy");
    s.prev = now;
    s.begin0 = now.data;
    return true;
  }

  // ------------------------------------------------------------------ one history
  void run_history(uint64_t seed, long h, int nops) {
    rng = Rng(Rng::mix(seed, static_cast<uint64_t>(h), 0x5EED));
    g_cur_hist = h;
    g_cur_op = 0;
    g_cut = false;
    paycnt = 0;
    scale = (!g_fz_on && h % 12 == 11) ? 70 : 1;
    if (scale > 1 && nops > 36) nops = 36;
    {
      MonScope m;
      ledger_reset();
      blk_reset();
      cur_hist_text.clear();
    }
    set_op("ctor()", "-", "-", "pool");
    for (int i = 0; i < NP; ++i) { construct_default(P[i]); }
    for (int i = 0; i < NQ; ++i) { construct_default(Q[i]); }
    for (int i = 0; i < NZ; ++i) { construct_default(Z[i]); }
    verify(OpInfo(), false);
    for (int i = 0; i < nops && !g_cut && !g_fz_exhausted; ++i) {
      g_cur_op = i + 1;
      int ai = rng.below(NP);
      uint32_t r = rng.below(100);
      {
        // drawn in every mode so that a history is the same with and without relocations (differential attribution of C14)
        bool rel = rng.chance(1, 8);
        int which = rng.below(NP + NQ + (NZ ? NZ : 1));
        if (reloc_mode && rel) {
          if (which < NP) relocate(P[which], which, "P");
          else if (which < NP + NQ) relocate(Q[which - NP], which, "Q");
          else if (NZ) relocate(Z[0], which, "Z");
          if (g_cut) break;
        }
      }
      if (r < 58) op_mutate(ai);
      else if (r < 76) op_pair(ai);
      else if (r < 84) reconstruct(ai);
      else if (r < (swap2_heavy ? 97u : 91u)) op_swap2(ai);
      else if (r < 97) { int qi = rng.below(NQ); simple_mutate(Q[qi], NP + qi, "Q"); }
      else if (NZ && rng.chance(1, 3)) op_assign_from_z(ai);
      else op_z();
    }
    if (g_cut) {
      // A monitor fired: the history stops here. The pool is still destroyed, so that the allocator / element ledgers can witness the
      // consequences (a block handed back with a wrong size, a double destruction); the process may die doing so, which the driver records.
      ++n_cut;
      { MonScope m0; g_cur_sig += "+teardown-after-violation"; }
      keep_sig = true;
      for (int i = 0; i < NP; ++i) destroy(P[i]);
      for (int i = 0; i < NQ; ++i) destroy(Q[i]);
      for (int i = 0; i < NZ; ++i) destroy(Z[i]);
      keep_sig = false;
      {
        MonScope m;
        if (EI<E>::kTracked && g_live_lib != 0) violation("C02", "ledger.alive_at_end", fmt("%ld element object(s) still alive after all containers were destroyed (after a violation)", g_live_lib));
        if (g_blk_live != 0) violation("C06", "alloc.outstanding_at_end", fmt("%ld block(s) still outstanding after all containers were destroyed (after a violation)", g_blk_live));
      }
      g_cut = true;
      return;
    }
    // teardown: everything is destroyed, nothing may remain
    g_cur_op = nops + 1;
    for (int i = 0; i < NP; ++i) destroy(P[i]);
    for (int i = 0; i < NQ; ++i) destroy(Q[i]);
    for (int i = 0; i < NZ; ++i) destroy(Z[i]);
    {
      MonScope m;
      g_cur_sig = "end-of-history";
      g_cur_desc = "all containers destroyed";
      if (EI<E>::kTracked && g_live_lib != 0) violation("C02", "ledger.alive_at_end", fmt("%ld element object(s) still alive after all containers were destroyed", g_live_lib));
      if (g_blk_live != 0) violation("C06", "alloc.outstanding_at_end", fmt("%ld block(s) still outstanding after all containers were destroyed", g_blk_live));
      ++n_hist;
      if (sample_hist.size() < 3) sample_hist.push_back(cur_hist_text);
      else if (g_fz_on && cur_hist_text.size() > sample_hist[n_hist % 3].size()) sample_hist[n_hist % 3] = cur_hist_text;  // fuzz mode: keep long ones
    }
  }
};

}  // namespace vf

namespace vf {
template <class Eng>
void write_vec_summary(Eng &eng, uint64_t seed, long from, long next, long to, bool hook) {
  {
    MonScope m;
    std::string cells = "{";
    bool first = true;
    for (auto &kv : eng.cells) {
      if (!first) cells += ",";
      first = false;
      cells += "\"" + jesc(kv.first) + "\":" + std::to_string(kv.second);
    }
    cells += "}";
    std::string samples = "[";
    for (size_t i = 0; i < eng.sample_hist.size(); ++i) samples += (i ? ",\"" : "\"") + jesc(eng.sample_hist[i]) + "\"";
    samples += "]";
    out_line(fmt("{\"t\":\"summary\",\"cfg\":\"%s\",\"seed\":%llu,\"from\":%ld,\"next\":%ld,\"to\":%ld,\"cut\":%d,\"histories\":%llu,\"calls\":%llu,"
                 "\"hook\":%d,\"hook_alive\":%llu,\"entitled_calls\":%llu,\"unentitled_alloc_calls\":%llu,\"handovers\":%llu,\"nonrealloc_checks\":%llu,"
                 "\"relocations\":%llu,\"cap_decreases_legit\":%llu,\"alloc\":%llu,\"dealloc\":%llu,\"realloc\":%llu,\"blk_peak\":%ld,"
                 "\"ev\":[%llu,%llu,%llu,%llu,%llu,%llu,%llu]",
                 VF_CFG_NAME, (unsigned long long)seed, from, next, to, g_cut ? 1 : 0, (unsigned long long)eng.n_hist, (unsigned long long)eng.n_calls,
                 hook ? 1 : 0, (unsigned long long)g_hook_alive, (unsigned long long)eng.n_entitled_calls, (unsigned long long)eng.n_unentitled_allocs,
                 (unsigned long long)eng.n_handover, (unsigned long long)eng.n_nonrealloc, (unsigned long long)eng.n_reloc, (unsigned long long)eng.n_capdec,
                 (unsigned long long)g_n_alloc, (unsigned long long)g_n_dealloc, (unsigned long long)g_n_realloc, g_blk_peak,
                 (unsigned long long)g_ev_all[0], (unsigned long long)g_ev_all[1], (unsigned long long)g_ev_all[2], (unsigned long long)g_ev_all[3],
                 (unsigned long long)g_ev_all[4], (unsigned long long)g_ev_all[5], (unsigned long long)g_ev_all[6]) +
             ",\"cells\":" + cells + ",\"samples\":" + samples + "}");
  }
}
}  // namespace vf

// ---------------------------------------------------------------------- coverage-guided entry point (libFuzzer, -DVF_FUZZ)
#ifdef VF_FUZZ
static vf::Engine<Vec, Vec2> *g_fz_eng = nullptr;
static long g_fz_inputs = 0;
static void fz_at_exit() {
  // libFuzzer leaves through exit() once -runs is reached: the summary (cells observed, calls, element events) goes to the out file
  if (g_fz_eng) vf::write_vec_summary(*g_fz_eng, 0, 0, g_fz_inputs, g_fz_inputs, true);
}
extern "C" int LLVMFuzzerTestOneInput(const uint8_t *data, size_t size) {
  using namespace vf;
  static Engine<Vec, Vec2> *eng = nullptr;
  long &h = g_fz_inputs;
  if (!eng) {
    MonScope m;
    const char *out = getenv("VF_FUZZ_OUT");
    if (out) open_out(out);
    const char *ring = getenv("VF_FUZZ_RING");
    if (ring) open_ring(ring);
    install_malloc_hook();
    g_elem_relocatable = EI<Elem>::kRelocatable;
    eng = new Engine<Vec, Vec2>();
    eng->swap2_heavy = getenv("VF_FUZZ_SWAP2") != nullptr;
    g_fz_eng = eng;
    atexit(fz_at_exit);
  }
  g_fz_data = data;
  g_fz_size = size;
  g_fz_pos = 0;
  g_fz_exhausted = false;
  g_fz_on = true;
  eng->run_history(0, h++, 150);
  g_fz_on = false;
  if (g_cut) {
    // a monitor fired (the record is already written): die so that libFuzzer keeps the input as the replay artifact
    MonScope m;
    out_line(fmt("{\"t\":\"fuzz_stop\",\"inputs\":%ld,\"calls\":%llu}", h, (unsigned long long)eng->n_calls));
    write_vec_summary(*eng, 0, 0, h, h, true);
    abort();
  }
  return 0;
}
#else
// ---------------------------------------------------------------------- main
int main(int argc, char **argv) {
  using namespace vf;
  uint64_t seed = 1;
  long from = 0, to = 10;
  int nops = 80;
  const char *out = nullptr, *ring = nullptr;
  bool reloc = false, s2 = false;
  for (int i = 1; i < argc; ++i) {
    std::string a = argv[i];
    if (a == "--seed") seed = strtoull(argv[++i], nullptr, 10);
    else if (a == "--from") from = atol(argv[++i]);
    else if (a == "--to") to = atol(argv[++i]);
    else if (a == "--ops") nops = atoi(argv[++i]);
    else if (a == "--out") out = argv[++i];
    else if (a == "--ring") ring = argv[++i];
    else if (a == "--reloc") reloc = true;
    else if (a == "--swap2-heavy") s2 = true;
  }
  if (out) open_out(out);
  if (ring) open_ring(ring);
  bool hook = install_malloc_hook();
  g_elem_relocatable = EI<Elem>::kRelocatable;
  static Engine<Vec, Vec2> eng;
  eng.reloc_mode = reloc;
  eng.swap2_heavy = s2;
  long h = from;
  for (; h < to; ++h) {
    eng.run_history(seed, h, nops);
    if (g_cut) break;
  }
  write_vec_summary(eng, seed, from, g_cut ? h + 1 : h, to, hook);
  if (g_cut) _exit(3);
  return 0;
}
#endif
