// C18 (and the clamp side of C08): the growth policy at capacities of the order of the size_type maximum, where the 1.5x computation can wrap.
// No real memory is needed: one-byte elements with a no-op default constructor live in a single lazily committed (MAP_NORESERVE) mapping that a
// basic allocator hands out again and again (one vector alive at a time); only the few pages written by the appends are ever touched.
// "history" index = (vector type, start capacity).
#include <sys/mman.h>

#include <amc/allocator.hpp>
#include <amc/smallvector.hpp>
#include <amc/vector.hpp>

#include <limits>

#include "engine_base.hpp"

namespace vf {

struct HugeByte {
  unsigned char b;
  HugeByte() {}  // deliberately leaves the byte alone: value-initialising billions of elements costs no memory
  HugeByte(int k, unsigned) : b(static_cast<unsigned char>(k)) {}
};

static unsigned char *g_arena = nullptr;
static const size_t kArenaBytes = 4700000000ull;
static uint64_t g_arena_calls = 0;  // allocate + reallocate
static long g_arena_live = 0;

struct HugeArena {
  void *allocate(size_t bytes) {
    ++g_arena_calls;
    if (bytes > kArenaBytes) throw std::bad_alloc();
    if (g_arena_live != 0) harness_fail("huge arena: two blocks alive at once");
    ++g_arena_live;
    return g_arena;
  }
  void *reallocate(void *p, size_t, size_t newBytes) {
    ++g_arena_calls;
    if (newBytes > kArenaBytes) throw std::bad_alloc();
    if (p == nullptr) { ++g_arena_live; return g_arena; }
    return p;  // grows in place: nothing to copy
  }
  void deallocate(void *p, size_t) {
    if (p != nullptr) --g_arena_live;
  }
};

template <class Vec>
struct HugeGrowth {
  typedef typename Vec::size_type SizeT;
  static uintmax_t stmax() { return static_cast<uintmax_t>(std::numeric_limits<SizeT>::max()); }
};

struct HugeEngine : EngineBase {
  uint64_t n_growth = 0, n_appends = 0, n_scen = 0;

  template <class Vec>
  void scenario(const char *tname, uintmax_t c0, int nappend) {
    typedef typename Vec::size_type SizeT;
    const uintmax_t limit = std::min<uintmax_t>(HugeGrowth<Vec>::stmax(), kArenaBytes);
    if (c0 > limit) return;
    if (HugeGrowth<Vec>::stmax() > kArenaBytes && (3 * c0 + 1) / 2 + 64 > kArenaBytes) return;  // a 64-bit size_type would legitimately ask for more than the arena
    set_op("append-sweep(huge)", tname, c0 * 3 > HugeGrowth<Vec>::stmax() * 2 ? "1.5x-exceeds-size_type" : c0 * 3 > HugeGrowth<Vec>::stmax() ? "3x-exceeds-size_type" : "plain", fmt("capacity=size=%ju", c0));
    ++n_scen;
    Vec *v;
    { MonScope m; v = static_cast<Vec *>(malloc(sizeof(Vec))); }
    window([&] { new (v) Vec(); });
    uint64_t r0 = g_arena_calls;
    window([&] { v->reserve(static_cast<SizeT>(c0)); });
    if (threw) { violation("C18", "growth.unexpected_exception", fmt("reserve(%ju) threw %s", c0, threw_what.c_str())); return; }
    if (g_arena_calls - r0 > 1) violation("C18", "reserve.more_than_one_allocation", fmt("reserve(%ju) on an empty vector made %ju allocator calls", c0, static_cast<uintmax_t>(g_arena_calls - r0)));
    if (static_cast<uintmax_t>(v->capacity()) < c0) violation("C18,C07", "reserve.capacity_too_small", fmt("capacity() %ju < %ju after reserve", static_cast<uintmax_t>(v->capacity()), c0));
    window([&] { v->resize(static_cast<SizeT>(c0)); });  // no-op constructors: no memory is touched
    if (threw) { violation("C18", "growth.unexpected_exception", fmt("resize(%ju) within the capacity threw %s", c0, threw_what.c_str())); return; }
    uintmax_t cap = static_cast<uintmax_t>(v->capacity());
    const uint64_t req_start = g_arena_calls;
    uintmax_t target = std::min<uintmax_t>(static_cast<uintmax_t>(nappend), limit - c0);
    for (uintmax_t n = 1; n <= target && !g_cut; ++n) {
      window([&] { v->emplace_back(static_cast<int>(n & 0x7F), 0u); });
      ++n_appends;
      if (threw) { violation("C18", "growth.unexpected_exception", fmt("append #%ju at size %ju threw %s", n, c0 + n - 1, threw_what.c_str())); break; }
      uintmax_t ncap = static_cast<uintmax_t>(v->capacity());
      uint64_t calls = g_arena_calls - req_start;
      unsigned lg = 0;
      { uintmax_t p = 1; while (p < n) { p <<= 1; ++lg; } }
      if (calls > 2ull * lg + 4) { violation("C18", "growth.too_many_reallocations", fmt("%ju allocator calls after appending %ju elements one by one to a full vector of %ju elements (bound %u)", static_cast<uintmax_t>(calls), n, c0, 2 * lg + 4)); break; }
      if (ncap != cap) {
        ++n_growth;
        uintmax_t want = (3 * cap + 1) / 2;
        if (ncap < HugeGrowth<Vec>::stmax() && ncap < want) { violation("C18", "growth.factor_below_1_5", fmt("capacity grew from %ju to %ju (< ceil(1.5 * old) = %ju) although the size_type (max %ju) allows more", cap, ncap, want, HugeGrowth<Vec>::stmax())); break; }
        cap = ncap;
      }
      if (static_cast<uintmax_t>(v->size()) != c0 + n || ncap < c0 + n) { violation("C18,C07", "growth.size", fmt("size() %ju / capacity() %ju after %ju appends to %ju elements", static_cast<uintmax_t>(v->size()), ncap, n, c0)); break; }
      if ((*v)[static_cast<SizeT>(c0 + n - 1)].b != static_cast<unsigned char>(n & 0x7F)) { violation("C18,C01", "growth.value", "the appended element is not where it should be"); break; }
    }
    window([&] { v->~Vec(); });
    MonScope m;
    free(v);
    if (g_arena_live != 0) { violation("C06", "alloc.outstanding_at_end", "the block of the huge vector was not returned"); g_arena_live = 0; }
  }

  void run(long idx, bool deep) {
    begin_history(0, idx, 0xC18);
    typedef amc::BasicAllocatorWrapper<HugeByte, HugeArena> A;
    // capacities around the points where 3*c and 1.5*c leave 32 bits (unsigned and signed), and a plain one
    static const uintmax_t caps[] = {1000000000ull, 1431655765ull, 1431655766ull, 1500000000ull, 2147483000ull, 2863311530ull, 2863311531ull, 3000000000ull,
                                     4294967200ull, 715827882ull, 715827883ull, 1431655000ull, 2147483600ull};
    (void)deep;
    int type = static_cast<int>(idx % 4);
    {
      uintmax_t c0 = caps[(idx / 4) % 13];
      switch (type) {
        case 0: scenario<amc::vector<HugeByte, A, uint32_t> >("vector<uint32>", c0, 48); break;
        case 1: scenario<amc::SmallVector<HugeByte, 16, A, uint32_t> >("SmallVector<16,uint32>", c0, 48); break;
        case 2: scenario<amc::vector<HugeByte, A, int32_t> >("vector<int32>", c0, 48); break;
        default: scenario<amc::vector<HugeByte, A, uint64_t> >("vector<uint64>", c0, 48); break;
      }
    }
    if (!g_cut) end_history_ok();
  }
};

}  // namespace vf

int main(int argc, char **argv) {
  using namespace vf;
  Args a;
  a.parse(argc, argv);
  {
    MonScope m;
    void *p = mmap(nullptr, kArenaBytes, PROT_READ | PROT_WRITE, MAP_PRIVATE | MAP_ANONYMOUS | MAP_NORESERVE, -1, 0);
    if (p == MAP_FAILED) harness_fail("cannot reserve the address range of the huge arena");
    g_arena = static_cast<unsigned char *>(p);
  }
  static HugeEngine eng;
  long to = a.to < 52 ? a.to : 52;
  long h = a.from;
  for (; h < to; ++h) {
    eng.run(h, a.has("--deep"));
    if (g_cut) break;
  }
  eng.counters["huge_scenarios"] = eng.n_scen;
  eng.counters["appends"] = eng.n_appends;
  eng.counters["growth_steps"] = eng.n_growth;
  eng.write_summary(VF_CFG_NAME, a.seed, a.from, g_cut ? h + 1 : h, a.to, false);
  if (g_cut) _exit(3);
  return 0;
}
