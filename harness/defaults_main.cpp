// The library used the way most users use it: DEFAULT template arguments (std::less<T>, amc::allocator<T>, the default size_type, std::set as the large
// set of a SmallSet) and ordinary element types (int, 64-bit integers at the extremes of their range, double, std::string short and long,
// std::pair<int, std::string>). Every other engine instruments the library through its template parameters (element, comparator, allocator), so code
// that is specialised on the standard function objects, on the stock allocators or on builtin / standard element types is out of their reach. Here the
// monitors are the differential models (std::vector<T> / std::set<T, Compare>) compared after every call, and ASan / UBSan / LSan (std::string owns memory).
// "history" index h: container case = h % kCases, the rest seeds the generator.   --vec | --flat | --small selects the family (C01 / C03 / C04+C11).
#include <amc/fixedcapacityvector.hpp>
#include <amc/flatset.hpp>
#include <amc/smallset.hpp>
#include <amc/smallvector.hpp>
#include <amc/vector.hpp>

#include <cstring>
#include <functional>
#include <limits>
#include <set>
#include <string>
#include <utility>
#include <vector>

#include "engine_base.hpp"

namespace vf {

// ---------------------------------------------------------------- values
template <class T> struct Gen;
template <> struct Gen<int> {
  static int make(Rng &r, int dom) { uint32_t x = r.below(40); return x == 0 ? std::numeric_limits<int>::min() : x == 1 ? std::numeric_limits<int>::max() : static_cast<int>(r.below(static_cast<uint32_t>(dom))) - dom / 4; }
  static std::string str(int v) { return fmt("%d", v); }
};
template <> struct Gen<uint64_t> {
  static uint64_t make(Rng &r, int dom) {
    static const uint64_t ext[] = {0ull, 1ull, 0x7FFFFFFFFFFFFFFFull, 0x8000000000000000ull, 0x8000000000000001ull, 0xFFFFFFFFFFFFFFFFull, 0xFFFFFFFFFFFFFFFEull, 0x00000000FFFFFFFFull, 0x0000000100000000ull};
    if (r.chance(1, 3)) return ext[r.below(9)];
    uint64_t v = r.below(static_cast<uint32_t>(dom));
    return r.chance(1, 2) ? v : 0x8000000000000000ull + v;
  }
  static std::string str(uint64_t v) { return fmt("%ju", static_cast<uintmax_t>(v)); }
};
template <> struct Gen<int64_t> {
  static int64_t make(Rng &r, int dom) {
    static const int64_t ext[] = {0, -1, 1, std::numeric_limits<int64_t>::min(), std::numeric_limits<int64_t>::max(), std::numeric_limits<int64_t>::min() + 1, std::numeric_limits<int64_t>::max() - 1};
    if (r.chance(1, 3)) return ext[r.below(7)];
    return static_cast<int64_t>(r.below(static_cast<uint32_t>(dom))) - dom / 2;
  }
  static std::string str(int64_t v) { return fmt("%jd", static_cast<intmax_t>(v)); }
};
template <> struct Gen<double> {
  static double make(Rng &r, int dom) { uint32_t x = r.below(30); return x == 0 ? -0.0 : x == 1 ? 1e300 : x == 2 ? -1e300 : (static_cast<int>(r.below(static_cast<uint32_t>(dom))) - dom / 4) * 0.5; }
  static std::string str(double v) { return fmt("%g", v); }
};
template <> struct Gen<std::string> {
  static std::string make(Rng &r, int dom) {
    uint32_t k = r.below(static_cast<uint32_t>(dom));
    if (k % 3 == 0) return fmt("%u", k);                                              // short (in-place buffer of std::string)
    if (k % 3 == 1) return fmt("a-rather-long-string-value-that-lives-on-the-heap-%04u", k);  // long
    return std::string(k % 7, 'x') + fmt("%u", k);
  }
  static std::string str(const std::string &v) { return v.size() > 12 ? v.substr(v.size() - 8) : v; }
};
template <> struct Gen<std::pair<int, std::string> > {
  static std::pair<int, std::string> make(Rng &r, int dom) { return std::make_pair(static_cast<int>(r.below(static_cast<uint32_t>(dom) / 2 + 1)), Gen<std::string>::make(r, 6)); }
  static std::string str(const std::pair<int, std::string> &v) { return fmt("(%d,%s)", v.first, Gen<std::string>::str(v.second).c_str()); }
};

template <class It>
std::string seq_str(It b, It e) {
  typedef typename std::iterator_traits<It>::value_type T;
  std::string s = "[";
  int n = 0;
  for (; b != e && n < 24; ++b, ++n) { if (n) s += " "; s += Gen<T>::str(*b); }
  if (b != e) s += " ..";
  return s + "]";
}

struct DefaultsEngine : EngineBase {
  const char *cname = "";
  const char *prop = "C01";

  // ------------------------------------------------------------------ vectors
  template <class AV, class T>
  bool same(const AV &a, const std::vector<T> &m) {
    if (static_cast<size_t>(a.size()) != m.size()) return false;
    size_t i = 0;
    for (typename AV::const_iterator it = a.begin(); it != a.end(); ++it, ++i) if (!(*it == m[i])) return false;
    return a.empty() == m.empty() && static_cast<size_t>(a.capacity()) >= m.size();
  }
  template <class AV, class T>
  void vcheck(const AV &a, const std::vector<T> &m, const char *what) {
    MonScope mm;
    if (threw) { violation(prop, "defaults.unexpected_exception", fmt("%s: %s threw %s", cname, what, threw_what.c_str())); return; }
    if (!same(a, m)) violation(prop, "defaults.sequence", fmt("%s after %s holds %s (size %ju), std::vector holds %s (size %zu)", cname, what, seq_str(a.begin(), a.end()).c_str(), static_cast<uintmax_t>(a.size()), seq_str(m.begin(), m.end()).c_str(), m.size()));
  }
  template <class AV, class T>
  void vec_history(const char *name, size_t limit, int nops, int dom) {
    cname = name;
    prop = "C01";
    typedef typename AV::size_type SizeT;
    AV a[2];
    std::vector<T> m[2];
    for (int step = 0; step < nops && !g_cut; ++step) {
      g_cur_op = step + 1;
      int i = static_cast<int>(rng.below(2)), j = 1 - i;
      AV &v = a[i];
      std::vector<T> &mv = m[i];
      const size_t sz = mv.size();
      const size_t room = limit > sz ? limit - sz : 0;
      uint32_t op = rng.below(26);
      T x = Gen<T>::make(rng, dom);
      size_t pos = sz ? rng.below(static_cast<uint32_t>(sz + 1)) : 0;
      size_t cnt = std::min<size_t>(rng.below(9), room);
      std::vector<T> src;
      for (size_t k = 0; k < cnt; ++k) src.push_back(Gen<T>::make(rng, dom));
      const char *what = "?";
      switch (op) {
        case 0: if (!room) continue; what = "push_back(const&)"; set_op(what, name, "-", Gen<T>::str(x)); window([&] { v.push_back(x); }); mv.push_back(x); break;
        case 1: { if (!room) continue; what = "push_back(&&)"; set_op(what, name, "-", Gen<T>::str(x)); T y = x; window([&] { v.push_back(std::move(y)); }); mv.push_back(x); break; }
        case 2: if (!room) continue; what = "emplace_back"; set_op(what, name, "-", Gen<T>::str(x)); window([&] { v.emplace_back(x); }); mv.emplace_back(x); break;
        case 3: if (!room) continue; what = "insert(pos,const&)"; set_op(what, name, pos == sz ? "end" : "mid", fmt("pos=%zu %s", pos, Gen<T>::str(x).c_str())); window([&] { v.insert(v.begin() + pos, x); }); mv.insert(mv.begin() + pos, x); break;
        case 4: { if (!room) continue; what = "insert(pos,&&)"; set_op(what, name, pos == sz ? "end" : "mid", fmt("pos=%zu", pos)); T y = x; window([&] { v.insert(v.begin() + pos, std::move(y)); }); mv.insert(mv.begin() + pos, x); break; }
        case 5: what = "insert(pos,n,v)"; set_op(what, name, cnt ? "n>0" : "n=0", fmt("pos=%zu n=%zu", pos, cnt)); window([&] { v.insert(v.begin() + pos, static_cast<SizeT>(cnt), x); }); mv.insert(mv.begin() + pos, cnt, x); break;
        case 6: what = "insert(pos,range)"; set_op(what, name, cnt ? "n>0" : "n=0", fmt("pos=%zu n=%zu", pos, cnt)); window([&] { v.insert(v.begin() + pos, src.begin(), src.end()); }); mv.insert(mv.begin() + pos, src.begin(), src.end()); break;
        case 7: if (!room) continue; what = "emplace(pos)"; set_op(what, name, pos == sz ? "end" : "mid", fmt("pos=%zu", pos)); window([&] { v.emplace(v.begin() + pos, x); }); mv.emplace(mv.begin() + pos, x); break;
        case 8: if (!sz) continue; what = "pop_back"; set_op(what, name, "-", ""); window([&] { v.pop_back(); }); mv.pop_back(); break;
        case 9: { if (!sz) continue; if (pos == sz) pos = sz - 1; what = "erase(pos)"; set_op(what, name, "-", fmt("pos=%zu", pos)); window([&] { v.erase(v.begin() + pos); }); mv.erase(mv.begin() + pos); break; }
        case 10: { size_t l = pos + (sz - pos ? rng.below(static_cast<uint32_t>(sz - pos + 1)) : 0); what = "erase(first,last)"; set_op(what, name, l == pos ? "empty" : "some", fmt("[%zu,%zu)", pos, l)); window([&] { v.erase(v.begin() + pos, v.begin() + l); }); mv.erase(mv.begin() + pos, mv.begin() + l); break; }
        case 11: { size_t n = rng.chance(1, 2) ? sz + cnt : (sz ? rng.below(static_cast<uint32_t>(sz + 1)) : 0); what = "resize(n)"; set_op(what, name, n > sz ? "grows" : "shrinks", fmt("n=%zu", n)); window([&] { v.resize(static_cast<SizeT>(n)); }); mv.resize(n); break; }
        case 12: { size_t n = rng.chance(1, 2) ? sz + cnt : (sz ? rng.below(static_cast<uint32_t>(sz + 1)) : 0); what = "resize(n,v)"; set_op(what, name, n > sz ? "grows" : "shrinks", fmt("n=%zu", n)); window([&] { v.resize(static_cast<SizeT>(n), x); }); mv.resize(n, x); break; }
        case 13: { size_t n = std::min<size_t>(rng.below(12), limit); what = "assign(n,v)"; set_op(what, name, n > sz ? "grows" : "shrinks", fmt("n=%zu", n)); window([&] { v.assign(static_cast<SizeT>(n), x); }); mv.assign(n, x); break; }
        case 14: { std::vector<T> s2; size_t n = std::min<size_t>(rng.below(12), limit); for (size_t k = 0; k < n; ++k) s2.push_back(Gen<T>::make(rng, dom)); what = "assign(range)"; set_op(what, name, n > sz ? "grows" : "shrinks", fmt("n=%zu", n)); window([&] { v.assign(s2.begin(), s2.end()); }); mv = s2; break; }
        case 15: what = "clear"; set_op(what, name, "-", ""); window([&] { v.clear(); }); mv.clear(); break;
        case 16: { size_t n = std::min<size_t>(sz + rng.below(20), limit); what = "reserve"; set_op(what, name, "-", fmt("n=%zu", n)); window([&] { v.reserve(static_cast<SizeT>(n)); }); break; }
        case 17: what = "shrink_to_fit"; set_op(what, name, "-", ""); window([&] { v.shrink_to_fit(); }); break;
        case 18: what = "swap"; set_op(what, name, "-", ""); window([&] { v.swap(a[j]); }); mv.swap(m[j]); break;
        case 19: what = "operator=(const&)"; set_op(what, name, "-", ""); window([&] { v = a[j]; }); mv = m[j]; break;
        case 20: { what = "operator=(&&)"; set_op(what, name, "-", ""); window([&] { v = std::move(a[j]); a[j].clear(); }); mv = m[j]; m[j].clear(); break; }
        case 21: { what = "ctor(copy)+swap"; set_op(what, name, "-", ""); window([&] { AV c(a[j]); v.swap(c); }); mv = m[j]; break; }
        case 22: { what = "ctor(move)"; set_op(what, name, "-", ""); window([&] { AV c(std::move(v)); v = AV(); v.swap(c); }); break; }
        case 23: {
          what = "compare";
          set_op(what, name, "-", "");
          bool r[6] = {0, 0, 0, 0, 0, 0}, e[6];
          const bool self = rng.chance(1, 4);
          const AV &y = self ? v : a[j];
          const std::vector<T> &my = self ? mv : m[j];
          window([&] { r[0] = v == y; r[1] = v != y; r[2] = v < y; r[3] = v <= y; r[4] = v > y; r[5] = v >= y; });
          e[0] = mv == my; e[1] = mv != my; e[2] = mv < my; e[3] = mv <= my; e[4] = mv > my; e[5] = mv >= my;
          for (int q = 0; q < 6; ++q) if (r[q] != e[q]) { violation(prop, "defaults.comparison", fmt("%s: comparison operator #%d gives %d, std::vector gives %d", name, q, r[q], e[q])); break; }
          break;
        }
        case 24: {
          if (!sz) continue;
          what = "access";
          set_op(what, name, "-", "");
          bool ok = true, at_threw = false;
          size_t q = pos == sz ? sz - 1 : pos;
          const AV &cv = v;
          window([&] { ok = cv.front() == mv.front() && cv.back() == mv.back() && cv[static_cast<SizeT>(q)] == mv[q] && cv.at(static_cast<SizeT>(q)) == mv[q] && cv.data()[q] == mv[q] && *(cv.end() - 1) == mv.back() && *cv.rbegin() == mv.back(); });
          if (!threw && !ok) violation(prop, "defaults.element_access", fmt("%s: front/back/[]/at/data/iterators disagree with std::vector", name));
          window([&] { (void)cv.at(static_cast<SizeT>(sz)); });
          at_threw = threw;
          threw = false;
          if (!at_threw) violation(prop, "defaults.element_access", fmt("%s: at(size()) did not throw", name));
          break;
        }
        default: { std::vector<T> s2(src); what = "append(range)"; set_op(what, name, cnt ? "n>0" : "n=0", fmt("n=%zu", cnt)); window([&] { v.append(s2.begin(), s2.end()); }); mv.insert(mv.end(), s2.begin(), s2.end()); break; }
      }
      vcheck(a[0], m[0], what);
      if (!g_cut) vcheck(a[1], m[1], what);
    }
  }

  // ------------------------------------------------------------------ sets
  template <class AS, class MS>
  void scheck(const AS &a, const MS &m, const char *what) {
    MonScope mm;
    if (threw) { violation(prop, "defaults.unexpected_exception", fmt("%s: %s threw %s", cname, what, threw_what.c_str())); return; }
    bool ok = static_cast<size_t>(a.size()) == m.size() && a.empty() == m.empty();
    if (ok) {
      // as a set: same elements (the inline state of a SmallSet is not ordered, everything else must be)
      std::vector<typename MS::value_type> va(a.begin(), a.end()), vm(m.begin(), m.end());
      if (kSorted) ok = va == vm;
      else { MS re(va.begin(), va.end(), m.key_comp()); ok = re.size() == va.size() && std::vector<typename MS::value_type>(re.begin(), re.end()) == vm; }
    }
    if (!ok) violation(prop, "defaults.contents", fmt("%s after %s holds %s (size %ju), std::set holds %s (size %zu)", cname, what, seq_str(a.begin(), a.end()).c_str(), static_cast<uintmax_t>(a.size()), seq_str(m.begin(), m.end()).c_str(), m.size()));
  }
  bool kSorted = true;

  template <class AS, class MS>
  void flat_lookups(const AS &s, const MS &m, const typename MS::value_type &x, const char *name) {
    long lb = -1, ub = -1, e1 = -1, e2 = -1;
    window([&] { lb = s.lower_bound(x) - s.begin(); ub = s.upper_bound(x) - s.begin(); auto er = s.equal_range(x); e1 = er.first - s.begin(); e2 = er.second - s.begin(); });
    long mlb = static_cast<long>(std::distance(m.begin(), m.lower_bound(x))), mub = static_cast<long>(std::distance(m.begin(), m.upper_bound(x)));
    // (for a value that is not in the set FlatSet::equal_range returns an empty range at end(), std::set one at the lower bound: both delimit the same,
    //  empty, run of elements - the property asks for no more)
    const bool er_ok = mlb == mub ? e1 == e2 : (e1 == mlb && e2 == mub);
    if (!threw && (lb != mlb || ub != mub || !er_ok)) violation(prop, "defaults.bounds", fmt("%s: lower_bound/upper_bound/equal_range give %ld/%ld/[%ld,%ld), std::set %ld/%ld", name, lb, ub, e1, e2, mlb, mub));
  }

  template <class AS, class MS, bool FLAT>
  void set_history(const char *name, const char *property, size_t limit, int nops, int dom) {
    typedef typename MS::value_type T;
    cname = name;
    prop = property;
    kSorted = FLAT;
    AS a[2];
    MS m[2];
    for (int step = 0; step < nops && !g_cut; ++step) {
      g_cur_op = step + 1;
      int i = static_cast<int>(rng.below(2)), j = 1 - i;
      AS &s = a[i];
      MS &ms = m[i];
      const size_t sz = ms.size();
      const bool room = sz + 1 <= limit;
      uint32_t op = rng.below(22);
      T x = Gen<T>::make(rng, dom);
      // half of the time a value that is in the set
      if (sz && rng.chance(1, 2)) { auto it = ms.begin(); std::advance(it, rng.below(static_cast<uint32_t>(sz))); x = *it; }
      const bool present = ms.count(x) != 0;
      size_t hp = rng.below(static_cast<uint32_t>(sz + 1));
      const char *what = "?";
      switch (op) {
        case 0: { if (!room) continue; what = "insert(const&)"; set_op(what, name, present ? "present" : "absent", Gen<T>::str(x)); bool ins = false, eq = false; window([&] { auto r = s.insert(x); ins = r.second; eq = *r.first == x; }); bool mi = ms.insert(x).second; if (!threw && (ins != mi || !eq)) violation(prop, "defaults.insert_result", fmt("%s: insert returned inserted=%d (std::set %d), iterator designates the value: %d", name, ins, mi, eq)); break; }
        case 1: { if (!room) continue; what = "insert(&&)"; set_op(what, name, present ? "present" : "absent", Gen<T>::str(x)); bool ins = false; T y = x; window([&] { ins = s.insert(std::move(y)).second; }); bool mi = ms.insert(x).second; if (!threw && ins != mi) violation(prop, "defaults.insert_result", fmt("%s: insert(&&) returned inserted=%d, std::set %d", name, ins, mi)); break; }
        case 2: { if (!room) continue; what = "emplace"; set_op(what, name, present ? "present" : "absent", Gen<T>::str(x)); bool ins = false; window([&] { ins = s.emplace(x).second; }); bool mi = ms.emplace(x).second; if (!threw && ins != mi) violation(prop, "defaults.insert_result", fmt("%s: emplace returned inserted=%d, std::set %d", name, ins, mi)); break; }
        case 3: case 4: case 5: {
          if (!room) continue;
          what = op == 3 ? "insert(hint,const&)" : op == 4 ? "insert(hint,&&)" : "emplace_hint";
          set_op(what, name, present ? "present" : "absent", fmt("hint=%zu %s", hp, Gen<T>::str(x).c_str()));
          bool eq = false;
          T y = x;
          window([&] { auto h = s.begin(); std::advance(h, hp); auto r = op == 3 ? s.insert(h, x) : op == 4 ? s.insert(h, std::move(y)) : s.emplace_hint(h, x); eq = *r == x; });
          ms.insert(x);
          if (!threw && !eq) violation(prop, "defaults.insert_result", fmt("%s: %s returned an iterator that does not designate the value", name, what));
          break;
        }
        case 6: { what = "erase(key)"; set_op(what, name, present ? "present" : "absent", Gen<T>::str(x)); size_t r = 9; window([&] { r = static_cast<size_t>(s.erase(x)); }); size_t mr = ms.erase(x); if (!threw && r != mr) violation(prop, "defaults.erase_count", fmt("%s: erase(key) returned %zu, std::set %zu", name, r, mr)); break; }
        case 7: { if (!sz) continue; size_t p = hp == sz ? sz - 1 : hp; what = "erase(pos)"; set_op(what, name, "-", fmt("pos=%zu", p)); T victim = x; window([&] { auto it = s.begin(); std::advance(it, p); victim = *it; s.erase(it); }); ms.erase(victim); break; }
        case 8: {
          if (!FLAT) continue;  // (the inline order of a SmallSet is not the set order: a position range is not comparable)
          size_t l = hp + (sz - hp ? rng.below(static_cast<uint32_t>(sz - hp + 1)) : 0);
          what = "erase(first,last)";
          set_op(what, name, l == hp ? "empty" : "some", fmt("[%zu,%zu)", hp, l));
          window([&] { auto f = s.begin(), e = s.begin(); std::advance(f, hp); std::advance(e, l); s.erase(f, e); });
          auto f = ms.begin(), e = ms.begin(); std::advance(f, hp); std::advance(e, l); ms.erase(f, e);
          break;
        }
        case 9: case 10: {
          what = "lookup";
          set_op(what, name, present ? "present" : "absent", Gen<T>::str(x));
          bool f = false, c = false; size_t n = 9;
          const AS &cs = s;
          window([&] { auto it = cs.find(x); f = it != cs.end() && *it == x; c = cs.contains(x); n = static_cast<size_t>(cs.count(x)); });
          if (!threw && (f != present || c != present || n != (present ? 1u : 0u))) violation(prop, "defaults.lookup", fmt("%s: find/contains/count give %d/%d/%zu for a value that is %s", name, f, c, n, present ? "present" : "absent"));
          break;
        }
        case 11: {
          std::vector<T> src; size_t n = rng.below(7);
          for (size_t k = 0; k < n; ++k) src.push_back(Gen<T>::make(rng, dom));
          if (sz + src.size() > limit) continue;  // (a bounded underlying vector takes the whole range in before it drops the duplicates)
          // the same values from three kinds of source: a vector, a std::set of the same type, a std::multiset
          uint32_t kind = rng.below(3);
          what = kind == 0 ? "insert(range from vector)" : kind == 1 ? "insert(range from std::set)" : "insert(range from std::multiset)";
          set_op(what, name, "-", seq_str(src.begin(), src.end()));
          if (kind == 0) window([&] { s.insert(src.begin(), src.end()); });
          else if (kind == 1) { std::set<T> ss(src.begin(), src.end()); window([&] { s.insert(ss.begin(), ss.end()); }); }
          else { std::multiset<T> mm2(src.begin(), src.end()); window([&] { s.insert(mm2.begin(), mm2.end()); }); }
          ms.insert(src.begin(), src.end());
          break;
        }
        case 12: what = "clear"; set_op(what, name, "-", ""); window([&] { s.clear(); }); ms.clear(); break;
        case 13: what = "swap"; set_op(what, name, "-", ""); window([&] { s.swap(a[j]); }); ms.swap(m[j]); break;
        case 14: what = "operator=(const&)"; set_op(what, name, "-", ""); window([&] { s = a[j]; }); ms = m[j]; break;
        case 15: what = "operator=(&&)"; set_op(what, name, "-", ""); window([&] { s = std::move(a[j]); a[j].clear(); }); ms = m[j]; m[j].clear(); break;
        case 16: { what = "ctor(copy)+swap"; set_op(what, name, "-", ""); window([&] { AS c(a[j]); s.swap(c); }); ms = m[j]; break; }
        case 17: {
          if (sz + m[j].size() > limit) continue;
          what = "merge";
          set_op(what, name, "-", "");
          window([&] { s.merge(a[j]); });
          ms.merge(m[j]);
          break;
        }
        case 18: {
          what = "compare";
          set_op(what, name, "-", "");
          bool r[6] = {0, 0, 0, 0, 0, 0}, e[6];
          window([&] { r[0] = s == a[j]; r[1] = s != a[j]; r[2] = s < a[j]; r[3] = s <= a[j]; r[4] = s > a[j]; r[5] = s >= a[j]; });
          e[0] = ms == m[j]; e[1] = ms != m[j]; e[2] = ms < m[j]; e[3] = ms <= m[j]; e[4] = ms > m[j]; e[5] = ms >= m[j];
          for (int q = 0; q < 6; ++q) if (!threw && r[q] != e[q]) { violation(prop, "defaults.comparison", fmt("%s: comparison operator #%d gives %d, std::set gives %d", name, q, r[q], e[q])); break; }
          break;
        }
        case 19: {
          if (!present) continue;
          what = "extract+insert(node)";
          set_op(what, name, "-", Gen<T>::str(x));
          bool had = false, back = false;
          window([&] { auto nh = s.extract(x); had = !nh.empty() && nh.value() == x; auto r = a[j].insert(std::move(nh)); back = r.inserted; });
          ms.erase(x);
          bool mi = m[j].insert(x).second;
          if (!threw && (!had || back != mi)) violation(prop, "defaults.node", fmt("%s: extract gave a node with the value: %d; insert(node) inserted=%d, std::set %d", name, had, back, mi));
          break;
        }
        case 20: {
          what = "iteration";
          set_op(what, name, "-", "");
          size_t fwd = 0, rev = 0;
          const AS &cs = s;
          window([&] { for (auto it = cs.begin(); it != cs.end(); ++it) ++fwd; for (auto it = cs.rbegin(); it != cs.rend(); ++it) ++rev; });
          if (!threw && (fwd != sz || rev != sz)) violation(prop, "defaults.iteration", fmt("%s: forward / reverse iteration visit %zu / %zu elements, size is %zu", name, fwd, rev, sz));
          break;
        }
        default: {
          what = "bounds";
          set_op(what, name, present ? "present" : "absent", Gen<T>::str(x));
          bounds(s, ms, x, name, std::integral_constant<bool, FLAT>());
          break;
        }
      }
      if (g_cut) break;
      scheck(a[0], m[0], what);
      if (!g_cut) scheck(a[1], m[1], what);
    }
  }
  template <class AS, class MS>
  void bounds(const AS &s, const MS &m, const typename MS::value_type &x, const char *name, std::true_type) { flat_lookups(s, m, x, name); }
  template <class AS, class MS>
  void bounds(const AS &, const MS &, const typename MS::value_type &, const char *, std::false_type) {}


  // ------------------------------------------------------------------ merges between sets ordered by DIFFERENT standard comparators
  // (std::less<int> / std::less<unsigned> / std::less<> / std::greater<...> over the same element type: the source is not sorted the way the
  //  destination sorts)
  template <class CD, class CS>
  void cross_merge(const char *name, int rounds) {
    cname = name;
    prop = "C03";
    kSorted = true;
    for (int r = 0; r < rounds && !g_cut; ++r) {
      g_cur_op = r + 1;
      amc::FlatSet<int, CD> d;
      amc::FlatSet<int, CS> s;
      std::set<int, CD> md;
      std::set<int, CS> msrc;
      size_t nd = rng.below(7), ns = rng.below(7);
      for (size_t k = 0; k < nd; ++k) { int v = static_cast<int>(rng.below(24)) - 12; d.insert(v); md.insert(v); }
      for (size_t k = 0; k < ns; ++k) { int v = static_cast<int>(rng.below(24)) - 12; s.insert(v); msrc.insert(v); }
      set_op("merge(other standard comparator)", name, "-", fmt("%s <- %s", seq_str(md.begin(), md.end()).c_str(), seq_str(msrc.begin(), msrc.end()).c_str()));
      window([&] { d.merge(s); });
      md.merge(msrc);
      scheck(d, md, "merge(other standard comparator): destination");
      if (!g_cut) scheck(s, msrc, "merge(other standard comparator): source");
      if (!g_cut && !d.empty()) {
        int probe = *md.begin();
        bool f = false;
        window([&] { f = d.find(probe) != d.end() && d.contains(probe); });
        if (!f) violation(prop, "defaults.lookup", fmt("%s: an element of the merged set is not found", name));
      }
    }
  }

  // ------------------------------------------------------------------ transparent standard comparators: keys of other types
  template <class SS>
  void hetero_int(const char *name, int rounds) {
    cname = name;
    prop = "C04,C11";
    for (int r = 0; r < rounds && !g_cut; ++r) {
      g_cur_op = r + 1;
      SS s;
      std::set<int, typename SS::key_compare> m;
      size_t n = rng.below(10);  // below and above the inline capacity
      for (size_t k = 0; k < n; ++k) { int v = Gen<int>::make(rng, 12); s.insert(v); m.insert(v); }
      // drain / refill sometimes: back to the inline state
      if (rng.chance(1, 3)) { while (m.size() > 2) { int v = *m.begin(); s.erase(v); m.erase(v); } }
      static const long long keys[] = {0, 1, -1, 5, 300, -300, 4294967297LL, 4294967296LL, -4294967295LL, 2147483648LL, -2147483649LL, 0x7FFFFFFFFFFFFFFFLL, 65536 + 3, 256 + 1};
      for (long long k : keys) {
        set_op("lookup(key of another integral type)", name, s.size() > 4 ? "n>4" : "n<=4", fmt("key=%lld", k));
        bool f1 = false, c1 = false; size_t n1 = 9;
        const SS &cs = s;
        window([&] { f1 = cs.find(k) != cs.end(); c1 = cs.contains(k); n1 = static_cast<size_t>(cs.count(k)); });
        bool f2 = m.find(k) != m.end(); size_t n2 = m.count(k);
        if (threw || f1 != f2 || c1 != f2 || n1 != n2) { violation(prop, "defaults.lookup", fmt("%s with %zu elements: find/contains/count(%lld) give %d/%d/%zu, std::set gives %d/%zu", name, m.size(), k, f1, c1, n1, f2, n2)); break; }
        unsigned short us = static_cast<unsigned short>(k);
        window([&] { f1 = cs.find(us) != cs.end(); c1 = cs.contains(us); });
        f2 = m.find(us) != m.end();
        if (threw || f1 != f2 || c1 != f2) { violation(prop, "defaults.lookup", fmt("%s: find/contains(unsigned short %u) give %d/%d, std::set gives %d", name, us, f1, c1, f2)); break; }
      }
    }
  }
  template <class SS>
  void hetero_string(const char *name, const char *property, int rounds) {
    cname = name;
    prop = property;
    for (int r = 0; r < rounds && !g_cut; ++r) {
      g_cur_op = r + 1;
      SS s;
      std::set<std::string, std::less<> > m;
      size_t n = rng.below(9);
      for (size_t k = 0; k < n; ++k) { std::string v = Gen<std::string>::make(rng, 14); s.insert(v); m.insert(v); }
      if (rng.chance(1, 3)) { while (m.size() > 2) { std::string v = *m.begin(); s.erase(v); m.erase(v); } }
      for (int q = 0; q < 8 && !g_cut; ++q) {
        std::string key = Gen<std::string>::make(rng, 14);
        if (!m.empty() && rng.chance(1, 2)) { auto it = m.begin(); std::advance(it, rng.below(static_cast<uint32_t>(m.size()))); key = *it; }
        char buf[80];
        memset(buf, '#', sizeof buf);
        snprintf(buf, sizeof buf, "%s", key.c_str());  // a buffer longer than the C string it holds
        const char *cp = buf;
        set_op("lookup(C string / array key)", name, s.size() > 4 ? "n>4" : "n<=4", key);
        bool fa = false, fp = false, ca = false, cpn = false; size_t na = 9;
        const SS &cs = s;
        window([&] { fa = cs.find(buf) != cs.end(); fp = cs.find(cp) != cs.end(); ca = cs.contains(buf); cpn = cs.contains(cp); na = static_cast<size_t>(cs.count(buf)); });
        bool want = m.find(cp) != m.end();
        if (threw || fa != want || fp != want || ca != want || cpn != want || na != (want ? 1u : 0u))
          violation(prop, "defaults.lookup", fmt("%s with %zu elements: find(array)/find(pointer)/contains(array)/contains(pointer)/count(array) of '%s' give %d/%d/%d/%d/%zu, std::set gives %d", name, m.size(), Gen<std::string>::str(key).c_str(), fa, fp, ca, cpn, na, want));
      }
    }
  }

  // ------------------------------------------------------------------ cases
  enum { kVecCases = 12, kFlatCases = 16, kSmallCases = 14 };
  void run(const std::string &only, uint64_t seed, long h, int nops) {
    begin_history(seed, h, 0xDEF);
    typedef std::pair<int, std::string> PS;
    if (only == "vec") {
      switch (h % kVecCases) {
        case 0: vec_history<amc::vector<int>, int>("amc::vector<int>", 60, nops, 16); break;
        case 1: vec_history<amc::vector<std::string>, std::string>("amc::vector<std::string>", 40, nops, 30); break;
        case 2: vec_history<amc::SmallVector<int, 4>, int>("SmallVector<int,4>", 40, nops, 16); break;
        case 3: vec_history<amc::SmallVector<std::string, 3>, std::string>("SmallVector<std::string,3>", 30, nops, 30); break;
        case 4: vec_history<amc::FixedCapacityVector<int, 12>, int>("FixedCapacityVector<int,12>", 12, nops, 16); break;
        case 5: vec_history<amc::FixedCapacityVector<std::string, 8>, std::string>("FixedCapacityVector<std::string,8>", 8, nops, 30); break;
        case 6: vec_history<amc::vector<double>, double>("amc::vector<double>", 40, nops, 16); break;
        case 7: vec_history<amc::SmallVector<uint64_t, 5>, uint64_t>("SmallVector<uint64_t,5>", 40, nops, 16); break;
        case 8: vec_history<amc::vector<PS>, PS>("amc::vector<pair<int,string>>", 30, nops, 12); break;
        case 9: vec_history<amc::SmallVector<PS, 2>, PS>("SmallVector<pair<int,string>,2>", 30, nops, 12); break;
        case 10: vec_history<amc::vector<int, std::allocator<int> >, int>("amc::vector<int,std::allocator>", 60, nops, 16); break;
        default: vec_history<amc::SmallVector<std::string, 4, std::allocator<std::string> >, std::string>("SmallVector<std::string,4,std::allocator>", 30, nops, 30); break;
      }
    } else if (only == "flat") {
      switch (h % kFlatCases) {
        case 0: set_history<amc::FlatSet<int>, std::set<int>, true>("FlatSet<int>", "C03", 1000, nops, 24); break;
        case 1: set_history<amc::FlatSet<std::string>, std::set<std::string>, true>("FlatSet<std::string>", "C03", 1000, nops, 30); break;
        case 2: set_history<amc::FlatSet<uint64_t>, std::set<uint64_t>, true>("FlatSet<uint64_t>", "C03", 1000, nops, 12); break;
        case 3: set_history<amc::FlatSet<int64_t>, std::set<int64_t>, true>("FlatSet<int64_t>", "C03", 1000, nops, 12); break;
        case 4: set_history<amc::FlatSet<int, std::greater<int> >, std::set<int, std::greater<int> >, true>("FlatSet<int,std::greater>", "C03", 1000, nops, 24); break;
        case 5: set_history<amc::FlatSet<double>, std::set<double>, true>("FlatSet<double>", "C03", 1000, nops, 20); break;
        case 6: set_history<amc::FlatSet<PS>, std::set<PS>, true>("FlatSet<pair<int,string>>", "C03", 1000, nops, 12); break;
        case 7: set_history<amc::FlatSet<int, std::less<int>, amc::allocator<int>, amc::SmallVector<int, 6> >, std::set<int>, true>("FlatSet<int,SmallVector<6>>", "C03", 1000, nops, 24); break;
        case 8: set_history<amc::FlatSet<int, std::less<int>, amc::vec::EmptyAlloc, amc::FixedCapacityVector<int, 16> >, std::set<int>, true>("FlatSet<int,FixedCapacityVector<16>>", "C03", 16, nops, 24); break;
        case 9: set_history<amc::FlatSet<int, std::less<int>, std::allocator<int>, std::vector<int> >, std::set<int>, true>("FlatSet<int,std::vector>", "C03", 1000, nops, 24); break;
        case 10: cross_merge<std::less<int>, std::less<unsigned> >("FlatSet<int,less<int>> <- FlatSet<int,less<unsigned>>", nops / 4); break;
        case 11: cross_merge<std::less<unsigned>, std::less<int> >("FlatSet<int,less<unsigned>> <- FlatSet<int,less<int>>", nops / 4); break;
        case 12: cross_merge<std::less<>, std::less<unsigned> >("FlatSet<int,less<>> <- FlatSet<int,less<unsigned>>", nops / 4); break;
        case 13: cross_merge<std::greater<int>, std::greater<unsigned> >("FlatSet<int,greater<int>> <- FlatSet<int,greater<unsigned>>", nops / 4); break;
        case 14: cross_merge<std::less<int>, std::greater<int> >("FlatSet<int,less<int>> <- FlatSet<int,greater<int>>", nops / 4); break;
        default: hetero_string<amc::FlatSet<std::string, std::less<> > >("FlatSet<std::string,std::less<>>", "C03", nops / 4); break;
      }
    } else {
      typedef amc::SmallSet<int, 6, std::less<int>, amc::allocator<int>, amc::FlatSet<int> > SSF;
      typedef amc::SmallSet<std::string, 4, std::less<std::string>, amc::allocator<std::string>, amc::FlatSet<std::string> > SSFS;
      switch (h % kSmallCases) {
        case 0: set_history<amc::SmallSet<int, 4>, std::set<int>, false>("SmallSet<int,4>", "C04,C11", 1000, nops, 14); break;
        case 1: set_history<amc::SmallSet<std::string, 4>, std::set<std::string>, false>("SmallSet<std::string,4>", "C04,C11", 1000, nops, 16); break;
        case 2: set_history<amc::SmallSet<uint64_t, 8>, std::set<uint64_t>, false>("SmallSet<uint64_t,8>", "C04,C11", 1000, nops, 8); break;
        case 3: set_history<SSF, std::set<int>, false>("SmallSet<int,6,FlatSet>", "C04,C11", 1000, nops, 16); break;
        case 4: set_history<SSFS, std::set<std::string>, false>("SmallSet<std::string,4,FlatSet>", "C04,C11", 1000, nops, 16); break;
        case 5: set_history<amc::SmallSet<int, 40>, std::set<int>, false>("SmallSet<int,40>", "C04,C11", 1000, nops, 70); break;
        case 6: set_history<amc::SmallSet<int, 3, std::greater<int> >, std::set<int, std::greater<int> >, false>("SmallSet<int,3,std::greater>", "C04,C11", 1000, nops, 12); break;
        case 7: set_history<amc::SmallSet<PS, 3>, std::set<PS>, false>("SmallSet<pair<int,string>,3>", "C04,C11", 1000, nops, 8); break;
        case 8: set_history<amc::SmallSet<double, 5>, std::set<double>, false>("SmallSet<double,5>", "C04,C11", 1000, nops, 14); break;
        case 9: set_history<amc::SmallSet<int64_t, 2>, std::set<int64_t>, false>("SmallSet<int64_t,2>", "C04,C11", 1000, nops, 8); break;
        case 10: hetero_int<amc::SmallSet<int, 4, std::less<> > >("SmallSet<int,4,std::less<>>", nops / 4); break;
        case 11: hetero_int<amc::SmallSet<int, 6, std::greater<> > >("SmallSet<int,6,std::greater<>>", nops / 4); break;
        case 12: hetero_string<amc::SmallSet<std::string, 4, std::less<> > >("SmallSet<std::string,4,std::less<>>", "C04,C11", nops / 4); break;
        default: hetero_string<amc::SmallSet<std::string, 5, std::less<>, amc::allocator<std::string>, amc::FlatSet<std::string, std::less<> > > >("SmallSet<std::string,5,std::less<>,FlatSet>", "C04,C11", nops / 4); break;
      }
    }
    if (!g_cut) end_history_ok();
  }
};

}  // namespace vf

int main(int argc, char **argv) {
  using namespace vf;
  Args a;
  a.parse(argc, argv);
  std::string only = a.has("--flat") ? "flat" : a.has("--small") ? "small" : "vec";
  int nops = a.nops < 100 ? 120 : a.nops;
  static DefaultsEngine eng;
  long h = a.from;
  for (; h < a.to; ++h) {
    eng.run(only, a.seed, h, nops);
    if (g_cut) break;
  }
  eng.write_summary(VF_CFG_NAME, a.seed, a.from, g_cut ? h + 1 : h, a.to, false);
  if (g_cut) _exit(3);
  return 0;
}
