// C13: swap2 between two vector flavours, every pair of operand states, or a clean failure.
// The including TU defines Elem, VecA, VecB, VF_CFG_NAME.  "history" index = state of A (outer loop), so that a run can resume.
#pragma once

#include "vec_grid_common.hpp"

namespace vf {

struct OpState {
  uintmax_t size;
  int mode;  // 0 natural (inline when possible), 1 heap with capacity == size, 2 heap with spare room, 3 heap then cleared (size is what was there before), 4 adopted small-capacity heap buffer
};
inline const char *modename(int m) { static const char *n[] = {"natural", "heap-exact", "heap-room", "heap-cleared", "adopted"}; return n[m]; }

template <class VecA, class VecB>
struct Swap2Grid : GridBase {
  typedef VecInfo<VecA> IA;
  typedef VecInfo<VecB> IB;
  typedef typename IA::elem E;
  uint64_t n_cells = 0, n_possible = 0, n_impossible = 0, n_skipped = 0, n_handover = 0;
  bool wide = false;

  template <class V>
  std::vector<OpState> states() {
    typedef VecInfo<V> I;
    std::vector<OpState> st;
    std::vector<uintmax_t> sizes;
    for (uintmax_t s = 0; s <= (wide ? 9u : 6u); ++s) sizes.push_back(s);
    if (!I::kFixed || I::kN > 100) { sizes.push_back(120); sizes.push_back(127); sizes.push_back(250); sizes.push_back(255); sizes.push_back(300); }
    for (uintmax_t s : sizes) {
      if (s > I::limit()) continue;
      OpState a = {s, 0};
      st.push_back(a);
      if (!I::kFixed) {
        if (s > 0) { OpState b = {s, 1}; st.push_back(b); }
        OpState c = {s, 2};
        st.push_back(c);
        if (s > 0 && s <= 9) { OpState d = {s, 3}; st.push_back(d); }
        if (I::kSmall && s > 0 && s < I::kN) { OpState e = {s, 4}; st.push_back(e); }
      }
    }
    return st;
  }

  template <class V, bool SM = VecInfo<V>::kSmall>
  struct Adopt {
    static bool make(Swap2Grid &, Box<V> &, uintmax_t) { return false; }
  };
  template <class V>
  struct Adopt<V, true> {
    static bool make(Swap2Grid &g, Box<V> &b, uintmax_t size) {
      typedef VecInfo<V> I;
      typedef amc::vector<typename I::elem, typename I::alloc, typename I::size_type> Z;
      Box<Z> z;
      if (!g.build(z, size, size)) { g.destroy(z); return false; }
      b.obj = g.template raw_new<V>();
      g.window([&] { new (b.obj) V(std::move(*z.obj)); });
      b.model = z.model;
      g.destroy(z);
      return !g.threw;
    }
  };

  template <class V>
  bool build_state(Box<V> &b, const OpState &s) {
    typedef VecInfo<V> I;
    switch (s.mode) {
      case 0: return build(b, s.size, 0);
      case 1: return build(b, s.size, (I::kSmall && s.size <= I::kN) ? I::kN + 1 : s.size) && (b.obj->size() == b.obj->capacity() || I::kSmall);
      case 2: return build(b, s.size, std::max<uintmax_t>(s.size, I::kN) + 3 > I::limit() ? 0 : std::max<uintmax_t>(s.size, I::kN) + 3);
      case 3: {
        if (!build(b, s.size, std::max<uintmax_t>(s.size, I::kN) + 1)) return false;
        window([&] { b.obj->clear(); });
        b.model.clear();
        return true;
      }
      case 4: return Adopt<V>::make(*this, b, s.size);
    }
    return false;
  }

  // B.swap2(A) or A.swap2(B)
  void run_state(long ai) {
    std::vector<OpState> sa = states<VecA>(), sb = states<VecB>();
    if (ai >= static_cast<long>(sa.size())) return;
    begin_history(0, ai, 0xC13);
    for (size_t bi = 0; bi < sb.size() && !g_cut; ++bi)
      for (int dir = 0; dir < 2 && !g_cut; ++dir) cell(sa[ai], sb[bi], dir);
    if (!g_cut) end_history_ok();
  }
  long n_states() { return static_cast<long>(states<VecA>().size()); }

  template <class V>
  void truth_and_followup(Box<V> &b, const char *who) {
    typedef VecInfo<V> I;
    V &v = *b.obj;
    std::vector<Val> &m = b.model;
    // capacity() tells the truth: filling up to capacity() must not reallocate
    Snap s0 = snap(v);
    if (!s0.sane) return;
    uintmax_t room = s0.cap - s0.size;
    if (room > 8) room = 8;
    for (uintmax_t i = 0; i < room && !g_cut; ++i) {
      Val y = EI<E>::norm(Val(2, ++paycnt));
      window([&] { v.emplace_back(y.key, y.pay); });
      m.push_back(y);
      if (threw) { violation("C13", "swap2.unusable_after", fmt("%s: emplace_back within capacity() threw %s", who, threw_what.c_str())); return; }
    }
    Snap s1 = snap(v);
    {
      MonScope mm;
      if (s1.sane && s1.data != s0.data) violation("C13,C07", "swap2.capacity_lies", fmt("%s: filling up to the reported capacity() (%ju) reallocated", who, s0.cap));
      if (s1.sane && !same_vals(s1.vals, m)) violation("C13", "swap2.unusable_after", fmt("%s: after pushes %s, expected %s", who, vals_str(s1.vals).c_str(), vals_str(m).c_str()));
    }
    if (g_cut) return;
    // beyond capacity, insert at the front, shrink, clear
    if (m.size() + 2 <= I::limit()) {
      Val y = EI<E>::norm(Val(3, ++paycnt)), z = EI<E>::norm(Val(4, ++paycnt));
      window([&] { v.emplace_back(y.key, y.pay); });
      if (!threw) window([&] { v.emplace(v.begin(), z.key, z.pay); });
      if (threw) { violation("C13", "swap2.unusable_after", fmt("%s: follow-up growth threw %s", who, threw_what.c_str())); return; }
      m.push_back(y);
      m.insert(m.begin(), z);
    }
    window([&] { v.shrink_to_fit(); });
    if (threw) { violation("C13", "swap2.unusable_after", "shrink_to_fit threw"); return; }
    Snap s2 = snap(v);
    {
      MonScope mm;
      if (s2.sane && !same_vals(s2.vals, m)) violation("C13", "swap2.unusable_after", fmt("%s: after the follow-up script %s, expected %s", who, vals_str(s2.vals).c_str(), vals_str(m).c_str()));
    }
    window([&] { v.clear(); });
    m.clear();
  }

  void cell(const OpState &a, const OpState &b, int dir) {
    Box<VecA> A;
    Box<VecB> B;
    if (!build_state(A, a) || !build_state(B, b)) { ++n_skipped; destroy(A); destroy(B); cell_end<E>("C13"); return; }
    ++n_cells;
    Snap a0 = snap(*A.obj), b0 = snap(*B.obj);
    const bool possible = a0.size <= IB::limit() && b0.size <= IA::limit();
    // exceeding the N of an operand with the unchecked growing policy is outside the contract (no exception is promised)
    if ((a0.size > IB::limit() && IB::kUnchecked) || (b0.size > IA::limit() && IA::kUnchecked)) { --n_cells; ++n_skipped; destroy(A); destroy(B); cell_end<E>("C13"); return; }
    if (possible) ++n_possible; else ++n_impossible;
    set_op(dir ? "B.swap2(A)" : "A.swap2(B)", std::string(state_class<VecA>(a0)) + (a.mode == 3 ? "(cleared)" : "") + "|" + state_class<VecB>(b0) + (b.mode == 3 ? "(cleared)" : ""),
           possible ? (a0.size == b0.size ? "eq" : a0.size < b0.size ? "lt" : "gt") : "impossible",
           fmt("A{size %ju cap %ju %s} B{size %ju cap %ju %s}", a0.size, a0.cap, modename(a.mode), b0.size, b0.cap, modename(b.mode)));
    const long live0 = g_live_lib;
    if (dir) window([&] { B.obj->swap2(*A.obj); });
    else window([&] { A.obj->swap2(*B.obj); });
    if (possible) {
      if (threw) violation("C13", "swap2.unexpected_exception", fmt("swap2 threw %s although each content fits the other side", threw_what.c_str()));
      else A.model.swap(B.model);
    } else {
      if (!threw) violation("C13", "swap2.no_exception", "swap2 did not throw although the exchange is impossible");
      else if (threw_what.find("out_of_range") == std::string::npos && threw_what.find("overflow_error") == std::string::npos && threw_what.find("length_error") == std::string::npos)
        violation("C13", "swap2.exception_type", fmt("impossible swap2 threw %s", threw_what.c_str()));
    }
    if (!g_cut) {
      Snap a1 = snap(*A.obj), b1 = snap(*B.obj);
      MonScope mm;
      if (a1.sane && !same_vals(a1.vals, A.model))
        violation("C13", possible ? "swap2.contents" : "swap2.operand_changed_by_failed_swap", fmt("A holds %s, expected %s", vals_str(a1.vals).c_str(), vals_str(A.model).c_str()));
      if (b1.sane && !same_vals(b1.vals, B.model))
        violation("C13", possible ? "swap2.contents" : "swap2.operand_changed_by_failed_swap", fmt("B holds %s, expected %s", vals_str(b1.vals).c_str(), vals_str(B.model).c_str()));
      if (a1.sane && b1.sane) {
        if (EI<E>::kTracked && g_live_lib != live0) violation("C13,C02", "swap2.element_lost_or_duplicated", fmt("%ld element objects alive before, %ld after", live0, g_live_lib));
        std::vector<uint32_t> all(a1.serials);
        all.insert(all.end(), b1.serials.begin(), b1.serials.end());
        std::sort(all.begin(), all.end());
        for (size_t i = 1; i < all.size(); ++i)
          if (all[i] == all[i - 1]) { violation("C13,C02", "swap2.duplicate_identity", "an element object is visible twice after swap2"); break; }
        long own = (!a1.inl && a1.cap > 0 ? 1 : 0) + (!b1.inl && b1.cap > 0 ? 1 : 0);
        bool instrA = IA::kFixed || AllocKind<typename IA::alloc>::fam != FAM_NONE, instrB = IB::kFixed || AllocKind<typename IB::alloc>::fam != FAM_NONE;
        if (instrA && instrB && g_blk_live != own) violation("C13,C06", "swap2.block_ledger", fmt("%ld blocks outstanding, the two vectors own %ld", g_blk_live, own));
      }
      if (!canaries_ok(A.obj) || !canaries_ok(B.obj)) violation("C13", "swap2.write_outside_object", "bytes next to a container object were overwritten");
      // C07 for swap2: two heap-backed vectors of the same allocator type whose capacities each fit the other's size_type exchange their buffers:
      // element addresses are preserved and no element operation is performed
      if (possible && a1.sane && b1.sane && !IA::kFixed && !IB::kFixed && std::is_same<typename IA::alloc, typename IB::alloc>::value && !a0.inl && a0.cap > 0 && !b0.inl && b0.cap > 0 &&
          a0.cap <= static_cast<uintmax_t>(std::numeric_limits<typename IB::size_type>::max()) && b0.cap <= static_cast<uintmax_t>(std::numeric_limits<typename IA::size_type>::max())) {
        ++n_handover;
        if (a1.data != b0.data || b1.data != a0.data)
          violation("C07,C13", "swap2.no_buffer_handover", fmt("two heap-backed vectors (capacities %ju and %ju fit both size types) did not exchange their buffers", a0.cap, b0.cap));
        else if (EI<E>::kTracked) {
          bool ev = a1.serials != b0.serials || b1.serials != a0.serials;
          for (size_t i = 0; i < a1.serials.size() && !ev; ++i) ev = g_obj[a1.serials[i]].stamp == g_stamp;
          for (size_t i = 0; i < b1.serials.size() && !ev; ++i) ev = g_obj[b1.serials[i]].stamp == g_stamp;
          if (ev) violation("C07,C13", "swap2.handover_element_event", "element operations were performed although the buffers could simply be exchanged");
        }
      }
    }
    if (!g_cut) { MonScope mm; g_cur_sig += "+followup"; }
    if (!g_cut) truth_and_followup(A, "A");
    if (!g_cut) truth_and_followup(B, "B");
    destroy(A);
    destroy(B);
    cell_end<E>("C13,C02");
  }
};

}  // namespace vf

int main(int argc, char **argv) {
  using namespace vf;
  Args a;
  a.parse(argc, argv);
  install_malloc_hook();
  g_elem_relocatable = EI<Elem>::kRelocatable;
  g_selfswap_window = false;
  static Swap2Grid<VecA, VecB> eng;
  eng.wide = a.has("--wide");
  long total = eng.n_states();
  long to = a.to < total ? a.to : total;
  long h = a.from;
  for (; h < to; ++h) {
    eng.run_state(h);
    if (g_cut) break;
  }
  eng.counters["cells"] = eng.n_cells;
  eng.counters["cells_exchange_possible"] = eng.n_possible;
  eng.counters["cells_exchange_impossible"] = eng.n_impossible;
  eng.counters["cells_state_not_formable"] = eng.n_skipped;
  eng.counters["buffer_handovers_judged"] = eng.n_handover;
  eng.counters["states_A"] = total;
  eng.write_summary(VF_CFG_NAME, a.seed, a.from, g_cut ? h + 1 : h, a.to, true);
  if (g_cut) _exit(3);
  return 0;
}
