// C02 for NON-RELOCATABLE ELEMENTS NO LARGER THAN A POINTER. The ledger element types of mon/elem.hpp need 24 bytes, so a SmallVector whose whole inline
// storage is overlaid on its pointer word (N * sizeof(T) <= sizeof(T*)) never met an element that must not be copied by bytes. Here the element is a
// 4- or 8-byte object that holds nothing but an id; its address, value and life cycle live in a side table: every special member function checks that its
// source is a live object *at the address it was constructed at* and that its destination is not, so a relocation by raw bytes, a double destruction or a
// forgotten destruction shows on the next touch, and after every call the visible elements must be exactly the live ones, at their registered addresses,
// with the values of a std::vector model. "history" index h: container case = h % kCases.
#include <amc/fixedcapacityvector.hpp>
#include <amc/flatset.hpp>
#include <amc/smallvector.hpp>
#include <amc/vector.hpp>

#include <vector>

#include "engine_base.hpp"

namespace vf {

struct TinyRec { const void *addr; int value; bool live; };
static TinyRec g_tiny[1 << 20];
static uint32_t g_tiny_next = 1;
static long g_tiny_live = 0;

inline uint32_t tiny_born(const void *at, int value) {
  if (g_tiny_next >= (1u << 20)) harness_fail("tiny id space exhausted");
  uint32_t id = g_tiny_next++;
  g_tiny[id].addr = at;
  g_tiny[id].value = value;
  g_tiny[id].live = true;
  ++g_tiny_live;
  return id;
}
inline bool tiny_check(uint32_t id, const void *at, const char *what) {
  if (id == 0 || id >= g_tiny_next || !g_tiny[id].live) { violation("C02", "ledger.dead_object", fmt("%s on a tiny object outside its lifetime (id %u)", what, id)); return false; }
  if (g_tiny[id].addr != at) { violation("C02", "ledger.byte_copied", fmt("%s on tiny object #%u that was moved by raw byte copy (constructed at %p, now at %p)", what, id, g_tiny[id].addr, at)); return false; }
  return true;
}

// PAD = 0: 4 bytes; PAD = 1: 8 bytes
template <int PAD> struct TinyPad { uint32_t pad_word; };
template <> struct TinyPad<0> {};
template <int PAD>
struct Tiny : TinyPad<PAD> {
  uint32_t id;
  Tiny() : id(tiny_born(this, 0)) {}
  Tiny(int v) : id(tiny_born(this, v)) {}
  Tiny(const Tiny &o) : id(0) { int v = tiny_check(o.id, &o, "read(copy-ctor source)") ? g_tiny[o.id].value : -1; id = tiny_born(this, v); }
  Tiny(Tiny &&o) noexcept : id(0) { int v = tiny_check(o.id, &o, "read(move-ctor source)") ? g_tiny[o.id].value : -1; id = tiny_born(this, v); if (o.id && o.id < g_tiny_next) g_tiny[o.id].value = -7777; }
  Tiny &operator=(const Tiny &o) {
    bool a = tiny_check(id, this, "copy-assign(dest)"), b = tiny_check(o.id, &o, "read(copy-assign source)");
    if (a && b) g_tiny[id].value = g_tiny[o.id].value;
    return *this;
  }
  Tiny &operator=(Tiny &&o) noexcept {
    bool a = tiny_check(id, this, "move-assign(dest)"), b = tiny_check(o.id, &o, "read(move-assign source)");
    if (a && b && this != &o) { g_tiny[id].value = g_tiny[o.id].value; g_tiny[o.id].value = -7777; }
    return *this;
  }
  ~Tiny() {
    if (tiny_check(id, this, "destructor")) { g_tiny[id].live = false; --g_tiny_live; }
  }
  int value() const { return tiny_check(id, this, "read(value)") ? g_tiny[id].value : -1; }
  bool operator==(const Tiny &o) const { return value() == o.value(); }
  bool operator<(const Tiny &o) const { return value() < o.value(); }
};

struct TinyEngine : EngineBase {
  const char *cname = "";
  template <class V>
  void check(V *pool, std::vector<int> *m, int np, const char *what) {
    MonScope mm;
    if (g_cut) return;
    if (threw) { violation("C02", "tiny.unexpected_exception", fmt("%s: %s threw %s", cname, what, threw_what.c_str())); return; }
    long visible = 0;
    for (int i = 0; i < np && !g_cut; ++i) {
      if (static_cast<size_t>(pool[i].size()) != m[i].size()) { violation("C01,C02", "tiny.size", fmt("%s after %s: size %ju, model %zu", cname, what, static_cast<uintmax_t>(pool[i].size()), m[i].size())); return; }
      size_t k = 0;
      for (typename V::const_iterator it = pool[i].begin(); it != pool[i].end() && !g_cut; ++it, ++k) {
        ++visible;
        int v = it->value();  // checks: alive, at the address it was constructed at
        if (!g_cut && v != m[i][k]) violation("C01,C02", "tiny.value", fmt("%s after %s: element %zu of vector %d holds %d, model %d", cname, what, k, i, v, m[i][k]));
      }
    }
    if (!g_cut && visible != g_tiny_live) violation("C02", "ledger.live_vs_visible", fmt("%s after %s: %ld element objects alive, %ld visible (%s)", cname, what, g_tiny_live, visible, g_tiny_live > visible ? "leak" : "visible element not alive"));
  }

  template <class V>
  void history(const char *name, size_t limit, int nops) {
    typedef typename V::value_type T;
    typedef typename V::size_type SizeT;
    cname = name;
    enum { NP = 3 };
    {
      V pool[NP];
      std::vector<int> m[NP];
      int nextv = 1;
      for (int step = 0; step < nops && !g_cut; ++step) {
        g_cur_op = step + 1;
        int i = static_cast<int>(rng.below(NP)), j = static_cast<int>(rng.below(NP));
        V &v = pool[i];
        std::vector<int> &mv = m[i];
        const size_t sz = mv.size(), room = limit > sz ? limit - sz : 0;
        size_t pos = rng.below(static_cast<uint32_t>(sz + 1));
        size_t cnt = std::min<size_t>(rng.below(4), room);
        const char *what = "?";
        switch (rng.below(20)) {
          case 0: if (!room) continue; what = "push_back(const&)"; set_op(what, name, sz == 0 ? "empty" : "nonempty", ""); { int x = nextv++; T *e; { MonScope mm; e = new T(x); } window([&] { v.push_back(*e); }); { MonScope mm; delete e; } mv.push_back(x); } break;
          case 1: if (!room) continue; what = "emplace_back"; set_op(what, name, sz == 0 ? "empty" : "nonempty", ""); { int x = nextv++; window([&] { v.emplace_back(x); }); mv.push_back(x); } break;
          case 2: if (!room) continue; what = "emplace(pos)"; set_op(what, name, pos == sz ? "end" : "mid", ""); { int x = nextv++; window([&] { v.emplace(v.begin() + pos, x); }); mv.insert(mv.begin() + pos, x); } break;
          case 3: what = "insert(pos,n,v)"; set_op(what, name, cnt ? "n>0" : "n=0", ""); { int x = nextv++; T *e; { MonScope mm; e = new T(x); } window([&] { v.insert(v.begin() + pos, static_cast<SizeT>(cnt), *e); }); { MonScope mm; delete e; } mv.insert(mv.begin() + pos, cnt, x); } break;
          case 4: if (!sz) continue; what = "pop_back"; set_op(what, name, "-", ""); window([&] { v.pop_back(); }); mv.pop_back(); break;
          case 5: if (!sz) continue; if (pos == sz) pos = sz - 1; what = "erase(pos)"; set_op(what, name, "-", ""); window([&] { v.erase(v.begin() + pos); }); mv.erase(mv.begin() + pos); break;
          case 6: { size_t l = pos + (sz - pos ? rng.below(static_cast<uint32_t>(sz - pos + 1)) : 0); what = "erase(first,last)"; set_op(what, name, l == pos ? "empty" : "some", ""); window([&] { v.erase(v.begin() + pos, v.begin() + l); }); mv.erase(mv.begin() + pos, mv.begin() + l); break; }
          case 7: what = "clear"; set_op(what, name, "-", ""); window([&] { v.clear(); }); mv.clear(); break;
          case 8: { size_t n = std::min<size_t>(sz + rng.below(5), limit); what = "reserve"; set_op(what, name, "-", ""); window([&] { v.reserve(static_cast<SizeT>(n)); }); break; }
          case 9: what = "shrink_to_fit"; set_op(what, name, sz == 0 ? "empty" : "nonempty", ""); window([&] { v.shrink_to_fit(); }); break;
          case 10: { size_t n = rng.chance(1, 2) ? sz + cnt : (sz ? rng.below(static_cast<uint32_t>(sz + 1)) : 0); what = "resize(n)"; set_op(what, name, n > sz ? "grows" : "shrinks", ""); window([&] { v.resize(static_cast<SizeT>(n)); }); mv.resize(n, 0); break; }
          case 11: case 12: { what = "ctor(move)"; set_op(what, name, sz == 0 ? "source empty" : sz <= 2 ? "source small" : "source larger", ""); window([&] { V c(std::move(v)); v.clear(); v.swap(c); }); break; }
          case 13: case 14: if (i == j) continue; what = "operator=(&&)"; set_op(what, name, sz == 0 ? "dest empty" : "dest nonempty", ""); window([&] { v = std::move(pool[j]); pool[j].clear(); }); mv = m[j]; m[j].clear(); break;
          case 15: if (i == j) continue; what = "operator=(const&)"; set_op(what, name, "-", ""); window([&] { v = pool[j]; }); mv = m[j]; break;
          case 16: what = "ctor(copy)+swap"; set_op(what, name, "-", ""); window([&] { V c(pool[j]); v.swap(c); }); mv = m[j]; break;
          case 17: if (i == j) continue; what = "swap"; set_op(what, name, "-", ""); window([&] { v.swap(pool[j]); }); mv.swap(m[j]); break;
          case 18: if (i == j) continue; what = "swap2"; set_op(what, name, "-", ""); window([&] { v.swap2(pool[j]); }); mv.swap(m[j]); break;
          default: { if (!room) continue; what = "insert(pos,&&)"; set_op(what, name, pos == sz ? "end" : "mid", ""); int x = nextv++; T *e; { MonScope mm; e = new T(x); } window([&] { v.insert(v.begin() + pos, std::move(*e)); }); { MonScope mm; delete e; } mv.insert(mv.begin() + pos, x); break; }
        }
        check(pool, m, NP, what);
      }
    }
    MonScope mm;
    if (!g_cut && g_tiny_live != 0) violation("C02", "ledger.alive_at_end", fmt("%s: %ld tiny element object(s) still alive after all vectors were destroyed", name, g_tiny_live));
    g_tiny_live = 0;
    g_tiny_next = 1;
  }

  enum { kCases = 8 };
  void run(uint64_t seed, long h, int nops) {
    begin_history(seed, h, 0x7171);
    g_tiny_live = 0;
    g_tiny_next = 1;
    switch (h % kCases) {
      case 0: history<amc::SmallVector<Tiny<0>, 2> >("SmallVector<Tiny4,2> (inline storage = the pointer word)", 12, nops); break;
      case 1: history<amc::SmallVector<Tiny<0>, 1> >("SmallVector<Tiny4,1>", 10, nops); break;
      case 2: history<amc::SmallVector<Tiny<1>, 1> >("SmallVector<Tiny8,1> (inline storage = the pointer word)", 10, nops); break;
      case 3: history<amc::SmallVector<Tiny<0>, 3> >("SmallVector<Tiny4,3>", 12, nops); break;
      case 4: history<amc::vector<Tiny<0> > >("amc::vector<Tiny4>", 12, nops); break;
      case 5: history<amc::FixedCapacityVector<Tiny<0>, 2> >("FixedCapacityVector<Tiny4,2>", 2, nops); break;
      case 6: history<amc::SmallVector<Tiny<1>, 2, std::allocator<Tiny<1> >, unsigned char> >("SmallVector<Tiny8,2,std::allocator,u8>", 12, nops); break;
      default: history<amc::SmallVector<Tiny<0>, 2, amc::allocator<Tiny<0> >, uint64_t> >("SmallVector<Tiny4,2,u64>", 12, nops); break;
    }
    if (!g_cut) end_history_ok();
  }
};

}  // namespace vf

int main(int argc, char **argv) {
  using namespace vf;
  Args a;
  a.parse(argc, argv);
  static TinyEngine eng;
  int nops = a.nops < 60 ? 60 : a.nops;
  long h = a.from;
  for (; h < a.to; ++h) {
    eng.run(a.seed, h, nops);
    if (g_cut) break;
  }
  eng.write_summary(VF_CFG_NAME, a.seed, a.from, g_cut ? h + 1 : h, a.to, false);
  if (g_cut) _exit(3);
  return 0;
}
