// Common pieces of the vector engines: static info about an amc vector type, snapshots, state classes.
#pragma once

#include <amc/fixedcapacityvector.hpp>
#include <amc/smallvector.hpp>
#include <amc/vector.hpp>

#include <limits>
#include <set>
#include <string>
#include <vector>

#include "gen/ranges.hpp"
#include "mon/alloc.hpp"
#include "mon/core.hpp"
#include "mon/elem.hpp"

namespace vf {

template <class V>
struct VecInfo;
template <class T, class Alloc, class SizeType, class GP, SizeType N>
struct VecInfo<amc::Vector<T, Alloc, SizeType, GP, N> > {
  typedef T elem;
  typedef Alloc alloc;
  typedef SizeType size_type;
  static constexpr bool kFixed = std::is_same<Alloc, amc::vec::EmptyAlloc>::value;
  static constexpr bool kUnchecked = std::is_same<GP, amc::vec::UncheckedGrowingPolicy>::value;  // exceeding N is outside the contract (no exception)
  static constexpr bool kSmall = !kFixed && N != 0;
  static constexpr bool kPlain = !kFixed && N == 0;
  enum : uintmax_t { kN = N };  // an enumerator: usable by reference before C++17 without an out-of-class definition
  static uintmax_t limit() { return kFixed ? static_cast<uintmax_t>(N) : static_cast<uintmax_t>(std::numeric_limits<SizeType>::max()); }
  static const char *flavour() { return kFixed ? "Fixed" : kSmall ? "Small" : "vector"; }
};

template <class A>
struct AllocKind {
  static const int fam = FAM_NONE;  // stock allocator (amc::allocator / std::allocator) or none
  static const bool has_realloc = false;
};
template <class T>
struct AllocKind<amc::BasicAllocatorWrapper<T, LedgerBasic> > {
  static const int fam = FAM_BASIC;
  static const bool has_realloc = true;
};
template <class T, int F>
struct AllocKind<ExactAlloc<T, F> > {
  static const int fam = F;
  static const bool has_realloc = false;
};
template <class T>
struct AllocKind<ReallocAlloc<T> > {
  static const int fam = FAM_REALLOC;
  static const bool has_realloc = true;
};

// what one container looks like from outside, at a quiescent point
struct Snap {
  uintmax_t size = 0, cap = 0;
  const void *data = nullptr;
  bool inl = false;       // data() lies inside the object's own bytes
  bool sane = true;
  std::vector<Val> vals;
  std::vector<uint32_t> serials;  // tracked types only
  std::vector<const void *> addrs;
};

template <class E, bool TRK = EI<E>::kTracked>
struct ElemProbe {
  static void probe(const E &, Snap &) {}
};
template <class E>
struct ElemProbe<E, true> {
  static void probe(const E &e, Snap &s) {
    e.check_live("visible element");
    if (e.flags & kMovedFrom) {
      violation("C02,C09", "ledger.visible_moved_from", fmt("visible element #%u (index %zu) is in a moved-from state", e.serial, s.vals.size()));
    }
    s.serials.push_back(e.serial);
  }
};

// phase 1: what can be observed without dereferencing data()
template <class V>
void take_head(const V &v, Snap &s) {
  s = Snap();
  s.size = static_cast<uintmax_t>(v.size());
  s.cap = static_cast<uintmax_t>(v.capacity());
  s.data = v.data();
  const char *o = reinterpret_cast<const char *>(&v);
  const char *d = reinterpret_cast<const char *>(v.data());
  s.inl = d >= o && d < o + sizeof(V);
  if (s.size > s.cap) {
    violation("C07,C01", "shadow.size_gt_capacity", fmt("size() %ju > capacity() %ju", s.size, s.cap));
    s.sane = false;
    return;
  }
  if (s.cap > static_cast<uintmax_t>(v.max_size())) {
    violation("C07", "shadow.capacity_gt_max_size", fmt("capacity() %ju > max_size() %ju", s.cap, static_cast<uintmax_t>(v.max_size())));
  }
  if (s.size > 0 && s.data == nullptr) {
    violation("C01", "shadow.null_data", "size() > 0 with data() == nullptr");
    s.sane = false;
    return;
  }
  if (static_cast<bool>(v.empty()) != (s.size == 0)) violation("C01", "model.empty", "empty() disagrees with size()");
}
// phase 2: the elements
template <class V>
void take_elems(const V &v, Snap &s) {
  typedef typename V::value_type E;
  if (!s.sane) return;
  const E *p = v.data();
  for (uintmax_t i = 0; i < s.size; ++i) {
    ElemProbe<E>::probe(p[i], s);
    s.vals.push_back(EI<E>::val(p[i]));
    s.addrs.push_back(p + i);
  }
}
template <class V>
void take_snap(const V &v, Snap &s) {
  take_head(v, s);
  take_elems(v, s);
}

template <class V>
const char *state_class(const Snap &s) {
  typedef VecInfo<V> I;
  if (I::kFixed) return s.size == 0 ? "empty" : s.size == I::kN ? "full" : "partial";
  if (I::kPlain) return s.cap == 0 ? "null" : s.size == 0 ? "heap-empty" : s.size == s.cap ? "heap-full" : "heap-partial";
  if (s.inl) return s.size == 0 ? "inl-empty" : s.size == I::kN ? "inl-full" : "inl-partial";
  if (s.cap < I::kN) return "heap-adopted-smallcap";
  return s.size == 0 ? "heap-empty" : s.size <= I::kN ? "heap-le-N" : s.size == s.cap ? "heap-gt-N-full" : "heap-gt-N";
}

// in-place construction from (key, payload) for class types, from the value for raw arithmetic types
template <class V, bool A = std::is_arithmetic<typename V::value_type>::value>
struct Emp {
  static typename V::value_type &back(V &v, Val x) { return v.emplace_back(x.key, x.pay); }
  template <class It> static typename V::iterator at(V &v, It pos, Val x) { return v.emplace(pos, x.key, x.pay); }
  template <class S> static auto set(S &s, Val x) -> decltype(s.emplace(x.key, x.pay)) { return s.emplace(x.key, x.pay); }
  template <class S, class It> static auto hint(S &s, It h, Val x) -> decltype(s.emplace_hint(h, x.key, x.pay)) { return s.emplace_hint(h, x.key, x.pay); }
};
template <class V>
struct Emp<V, true> {
  typedef typename V::value_type E;
  static E &back(V &v, Val x) { return v.emplace_back(Mk<E>::make(x)); }
  template <class It> static typename V::iterator at(V &v, It pos, Val x) { return v.emplace(pos, Mk<E>::make(x)); }
  template <class S> static auto set(S &s, Val x) -> decltype(s.emplace(Mk<E>::make(x))) { return s.emplace(Mk<E>::make(x)); }
  template <class S, class It> static auto hint(S &s, It h, Val x) -> decltype(s.emplace_hint(h, Mk<E>::make(x))) { return s.emplace_hint(h, Mk<E>::make(x)); }
};

// emplace whose arguments are references to *members* of an element (no argument has the element type or points to an element):
// available for the element types that expose key / pay members
template <class E, class = void>
struct FieldAlias {
  static const bool kAvailable = false;
  template <class V, class It> static long emplace(V &, It, size_t) { return -2; }
  template <class V> static void emplace_back(V &, size_t) {}
};
template <class E>
struct FieldAlias<E, decltype(void(std::declval<E &>().key), void(std::declval<E &>().pay))> {
  static const bool kAvailable = true;
  template <class V, class It> static long emplace(V &v, It pos, size_t src) {
    auto &e = v[static_cast<typename V::size_type>(src)];
    auto it = v.emplace(pos, e.key, e.pay);
    return static_cast<long>(it - v.begin());
  }
  template <class V> static void emplace_back(V &v, size_t src) {
    auto &e = v[static_cast<typename V::size_type>(src)];
    v.emplace_back(e.key, e.pay);
  }
};

inline std::string vals_str(const std::vector<Val> &v, size_t maxn = 24) {
  std::string o = "[";
  for (size_t i = 0; i < v.size() && i < maxn; ++i) {
    if (i) o += " ";
    o += fmt("%d.%u", v[i].key, v[i].pay);
  }
  if (v.size() > maxn) o += fmt(" ..(%zu)", v.size());
  return o + "]";
}

inline bool same_vals(const std::vector<Val> &a, const std::vector<Val> &b) {
  if (a.size() != b.size()) return false;
  for (size_t i = 0; i < a.size(); ++i)
    if (!a[i].same(b[i])) return false;
  return true;
}

}  // namespace vf
