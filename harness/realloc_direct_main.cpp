// C06 (last clause): amc::allocator's reallocate preserves the live elements.  Direct driver of
// BasicAllocatorWrapper<T, BasicAllocator>::reallocate over a complete small grid of (old capacity, new capacity, live count),
// for trivially copyable, declared-relocatable and non-relocatable element types, with the instrumented basic allocator
// (always moves, poisons the old block) and with the stock SimpleAllocator (realloc).   "history" index = element category.
#include <amc/allocator.hpp>

#include "engine_base.hpp"

#ifndef VF_CFG_NAME
#define VF_CFG_NAME "realloc_direct"
#endif

namespace vf {

struct ReallocEngine : EngineBase {
  uint64_t n_cells = 0;
  unsigned paycnt = 0;

  template <class T, class A>
  void grid(const char *tname, const char *aname, bool instrumented) {
    A alloc;
    for (size_t oldc = 1; oldc <= 9 && !g_cut; ++oldc)
      for (size_t newc = 1; newc <= 12 && !g_cut; ++newc)
        for (size_t live = 0; live <= oldc && live <= newc && !g_cut; ++live) {
          set_op("reallocate", std::string(tname) + "," + aname, newc > oldc ? "grow" : newc < oldc ? "shrink" : "same", fmt("old=%zu new=%zu live=%zu", oldc, newc, live));
          ++n_cells;
          T *p = nullptr;
          window([&] { p = alloc.allocate(oldc); });
          std::vector<Val> vals;
          std::vector<uint32_t> serials;
          {
            MonScope m;
            for (size_t i = 0; i < live; ++i) {
              Val v = EI<T>::norm(Val(static_cast<int>(i % 6), ++paycnt));
              new (p + i) T(v.key, v.pay);
              vals.push_back(v);
              serials.push_back(serial_of(p[i]));
              disown(p[i]);
            }
          }
          const long live0 = g_live_lib;
          T *q = nullptr;
          window([&] { q = alloc.reallocate(p, oldc, newc, live); });
          {
            MonScope m;
            if (threw) { violation("C06", "realloc.unexpected_exception", threw_what); return; }
            if (q == nullptr) { violation("C06", "realloc.null", "reallocate returned a null pointer"); return; }
            for (size_t i = 0; i < live; ++i) {
              Val got = EI<T>::val(q[i]);
              if (!got.same(vals[i])) { violation("C06", "realloc.live_elements_not_preserved", fmt("element %zu of %zu is %d.%u after reallocate(%zu -> %zu), expected %d.%u", i, live, got.key, got.pay, oldc, newc, vals[i].key, vals[i].pay)); break; }
              probe_live(q[i]);
            }
            if (EI<T>::kTracked && g_live_lib != live0) violation("C06,C02", "realloc.element_count_changed", fmt("%ld live elements before reallocate, %ld after", live0, g_live_lib));
            if (instrumented && g_blk_live != 1) violation("C06", "realloc.block_ledger", fmt("%ld blocks outstanding after reallocate, expected exactly the new one", g_blk_live));
            for (size_t i = 0; i < live; ++i) adopt_and_destroy(q[i]);
          }
          window([&] { alloc.deallocate(q, newc); });
          MonScope m;
          if (instrumented && g_blk_live != 0) { violation("C06", "realloc.block_ledger", "block outstanding after deallocate"); blk_reset(); }
          if (EI<T>::kTracked && (g_live_lib != 0 || g_live_harness != 0)) { violation("C06,C02", "realloc.elements_left", "elements alive after the cell"); g_live_lib = 0; g_live_harness = 0; }
        }
  }
  template <class T> static uint32_t serial_of(const T &) { return 0; }
  template <int K> static uint32_t serial_of(const Tracked<K> &t) { return t.serial; }
  template <class T> static void disown(const T &) {}
  template <int K> static void disown(const Tracked<K> &t) { ledger_disown(t); }
  template <class T> static void probe_live(const T &) {}
  template <int K> static void probe_live(const Tracked<K> &t) { t.check_live("element after reallocate"); }
  template <class T> static void adopt_and_destroy(T &) {}
  template <int K> static void adopt_and_destroy(Tracked<K> &t) { ledger_adopt(t); t.~Tracked<K>(); }

  template <class T>
  void run_type(long idx, const char *tname) {
    begin_history(0, idx, 0xC06);
    g_elem_relocatable = true;  // the wrapper itself decides between realloc and allocate+relocate: both are legitimate for the basic allocator
    grid<T, amc::BasicAllocatorWrapper<T, LedgerBasic> >(tname, "instrumented-basic", true);
    if (!g_cut) grid<T, amc::allocator<T> >(tname, "amc::allocator", false);
    if (!g_cut) end_history_ok();
  }
};

}  // namespace vf

int main(int argc, char **argv) {
  using namespace vf;
  Args a;
  a.parse(argc, argv);
  static ReallocEngine eng;
  long to = a.to < 4 ? a.to : 4;
  long h = a.from;
  for (; h < to; ++h) {
    if (h == 0) eng.run_type<TC4>(h, "TC4");
    else if (h == 1) eng.run_type<TC12>(h, "TC12");
    else if (h == 2) eng.run_type<TR>(h, "TR");
    else eng.run_type<NTR>(h, "NTR");
    if (g_cut) break;
  }
  eng.counters["realloc_cells"] = eng.n_cells;
  eng.write_summary(VF_CFG_NAME, a.seed, a.from, g_cut ? h + 1 : h, a.to, false);
  if (g_cut) _exit(3);
  return 0;
}
