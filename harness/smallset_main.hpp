// SmallSet engine: complete small-scope state-space exploration (--space) and random histories (default).
// Serves C04 (model equivalence), C11 (iteration / iterator contract), C05 (no allocation while inline), C02/C06.
// The including TU defines: Elem, Cmp, Cmp2, SetA (SmallSet under test), SetB (SmallSet with another N / comparator,
// same backing family), VF_CFG_NAME, VF_N (inline capacity of SetA), VF_NB.
#pragma once

#include <amc/flatset.hpp>
#include <amc/smallset.hpp>

#include <algorithm>
#include <deque>
#include <map>
#include <set>

#include "engine_base.hpp"
#include "gen/ranges.hpp"
#include "mon/cmp.hpp"
#include "vec_common.hpp"

namespace vf {

enum OpK {
  O_INS_C, O_INS_M, O_EMPLACE, O_INS_HINT, O_EMPLACE_HINT, O_ERASE_KEY, O_ERASE_POS, O_ERASE_RANGE, O_EXTRACT_KEY, O_EXTRACT_POS,
  O_REINSERT_NODE, O_CLEAR, O_RANGE, O_LOOKUP, O_COPY, O_MOVE, O_COPY_ASSIGN, O_MOVE_ASSIGN, O_ERASE_LOOP, O_WALK, O_IL, O_ASSIGN_IL, O_ERASE_IF, O_BULK, O_NOPS
};
inline const char *opname(int k) {
  static const char *n[] = {"insert(const&)", "insert(&&)", "emplace", "insert(hint,v)", "emplace_hint", "erase(key)", "erase(pos)", "erase(first,last)",
                            "extract(key)", "extract(pos)", "extract+insert(node)", "clear", "insert(range)", "lookup", "ctor(copy)", "ctor(move)",
                            "operator=(const&)", "operator=(&&)", "erase-while-iterating", "walk", "insert(il)", "operator=(il)", "erase_if", "insert(bulk range)"};
  return n[k];
}
struct Op {
  int k = 0;
  int key = 0;        // key argument
  int i = 0, j = 0;   // positions / hint selector / subset mask
  int r[3] = {0, 0, 0};
  int rn = 0;         // range length
  int rkind = 0;
  std::string str() const {
    return fmt("%s key=%d i=%d j=%d range=%d:[%d %d %d]", opname(k), key, i, j, rn, r[0], r[1], r[2]);
  }
};

template <class Set>
struct SSInfo;
template <class T, uintmax_t N, class C, class A, class ST>
struct SSInfo<amc::SmallSet<T, N, C, A, ST> > {
  static constexpr uintmax_t kN = N;
  typedef C cmp;
  typedef ST backing;
  static constexpr bool kFlat = !std::is_same<ST, std::set<T, C, A> >::value;
};

template <class E, class Set>
struct SetBox {
  typedef typename SSInfo<Set>::cmp C;
  typedef std::set<Val, C> Model;
  Set *obj = nullptr;
  Model *model = nullptr;
  bool entitled = true;  // C05 shadow: has never held more than N elements (and neither had its swap/move partners)
};

template <class E, class SetA, class SetB>
struct SmallSetEngine : EngineBase {
  typedef typename SSInfo<SetA>::cmp CmpA;
  typedef typename SSInfo<SetB>::cmp CmpB;
  unsigned paycnt = 0;
  CmpA cmpA{kHarnessOrigin};
  CmpB cmpB{kHarnessOrigin};
  int keydom = 5;
  bool pair_only = false;  // only the two operands exist (state-space pair phase): the ledger can be balanced right after the call
  long extra_visible = 0;  // elements in harness-held nodes are adopted, so not counted

  Val mkval(int key) { return EI<E>::norm(Val(key, ++paycnt)); }

  template <class Set> Set *raw_new() { MonScope m; void *p = malloc(sizeof(Set)); memset(p, 0xA5, sizeof(Set)); return static_cast<Set *>(p); }
  template <class Set, class C>
  void make(SetBox<E, Set> &b, const C &c) {
    b.obj = raw_new<Set>();
    window([&] { new (b.obj) Set(c); });
    MonScope m;
    b.model = new typename SetBox<E, Set>::Model(c);
    b.entitled = true;
  }
  template <class Set>
  void unmake(SetBox<E, Set> &b) {
    if (!b.obj) return;
    window([&] { b.obj->~Set(); });
    MonScope m;
    free(b.obj);
    delete b.model;
    b.obj = nullptr;
    b.model = nullptr;
  }

  // ---- observation -------------------------------------------------------------------------------------------
  template <class Set>
  static bool is_large(const Set &s) {
    if (s.size() == 0) return false;
    const char *o = reinterpret_cast<const char *>(&s);
    const char *p = reinterpret_cast<const char *>(&*s.begin());
    return !(p >= o && p < o + sizeof(Set));
  }
  template <class Set>
  std::string stcls(const Set &s) {
    MonScope m;
    size_t n = static_cast<size_t>(s.size());
    const uintmax_t N = SSInfo<Set>::kN;
    if (n == 0) return "empty";
    if (is_large(s)) return n > N ? "large" : "large-le-N";
    return n == N ? "inline-full" : "inline-partial";
  }

  // operator-> must designate the same element as operator*
  template <class T> static const T *arrow(const T *p) { return p; }
  template <class It> static auto arrow(const It &it) -> decltype(it.operator->()) { return it.operator->(); }

  // walk begin->end with a step cap; returns iteration order and the iterators
  template <class Set>
  bool walk(const Set &s, std::vector<Val> &order, std::vector<typename Set::const_iterator> *its, std::vector<uint32_t> *serials, const char *props) {
    size_t n = static_cast<size_t>(s.size());
    if (n > 100000) { violation(props, "walk.size_insane", "size() is absurd"); return false; }
    auto it = s.begin();
    auto e = s.end();
    size_t steps = 0;
    Snap sn;
    while (!(it == e)) {
      if (steps == n) { violation(props, "walk.not_terminating", fmt("begin()..end() walk did not reach end() within size()=%zu steps", n)); return false; }
      const E &el = *it;
      if (static_cast<const E *>(arrow(it)) != &el) { violation(props, "iterator.arrow_differs_from_star", "operator-> of a forward iterator does not designate the element operator* returns"); return false; }
      ElemProbe<E>::probe(el, sn);
      order.push_back(EI<E>::val(el));
      sn.vals.push_back(order.back());
      if (its) its->push_back(it);
      ++it;
      ++steps;
    }
    if (steps != n) { violation(props, "walk.count", fmt("begin()..end() visits %zu elements, size() is %zu", steps, n)); return false; }
    if (serials) *serials = sn.serials;
    return true;
  }

  template <class Set>
  void verify_one(SetBox<E, Set> &b, std::vector<uint32_t> &all, long &visible, bool full) {
    const Set &s = *b.obj;
    std::vector<Val> order;
    std::vector<uint32_t> ser;
    if (!walk(s, order, nullptr, &ser, "C04,C11")) return;
    visible += static_cast<long>(order.size());
    all.insert(all.end(), ser.begin(), ser.end());
    typename SetBox<E, Set>::Model got(b.model->key_comp());
    bool dup = false;
    for (size_t i = 0; i < order.size(); ++i)
      if (!got.insert(order[i]).second) dup = true;
    if (dup) violation("C04,C11", "model.duplicate_equivalent", fmt("iteration visits two equivalent elements: %s", vals_str(order).c_str()));
    std::vector<Val> g(got.begin(), got.end()), e(b.model->begin(), b.model->end());
    // (also C11: the begin()..end() walk must visit the elements of the set, all of them and nothing else)
    if (!same_vals(g, e)) violation("C04,C11", "model.contents", fmt("the begin()..end() walk of the SmallSet visits %s, std::set holds %s", vals_str(g).c_str(), vals_str(e).c_str()));
    if (static_cast<size_t>(s.size()) != e.size()) violation("C04", "model.size", fmt("size() %zu, std::set %zu", static_cast<size_t>(s.size()), e.size()));
    if (s.empty() != e.empty()) violation("C04", "model.empty", "empty() differs from std::set");
    if (full) {
      // reverse walk visits every element exactly once
      size_t n = order.size(), steps = 0;
      std::vector<Val> rord;
      auto it = s.rbegin();
      auto re = s.rend();
      while (!(it == re)) {
        if (steps == n) { violation("C11", "walk.reverse_not_terminating", "rbegin()..rend() walk did not reach rend() within size() steps"); return; }
        rord.push_back(EI<E>::val(*it));
        if (static_cast<const E *>(arrow(it)) != &*it) { violation("C11", "iterator.arrow_differs_from_star", "operator-> of a reverse iterator does not designate the element operator* returns"); return; }
        ++it;
        ++steps;
      }
      std::reverse(rord.begin(), rord.end());
      if (!same_vals(rord, order)) violation("C11", "walk.reverse", fmt("reverse walk visits %s, forward walk %s", vals_str(rord).c_str(), vals_str(order).c_str()));
    }
    // C05: entitled => no element outside the object
    if (b.entitled && order.size() > 0 && is_large(s)) violation("C05", "smallset.large_within_N", fmt("SmallSet that never held more than N elements stores them outside the object (size %zu)", order.size()));
  }

  // iterator returned by the library: must be end() or one of the iterators of a fresh walk, before it is dereferenced
  template <class Set>
  int classify(const Set &s, typename Set::const_iterator it, const char *what) {
    MonScope m;
    if (it == s.end()) return -1;
    std::vector<Val> order;
    std::vector<typename Set::const_iterator> its;
    if (!walk(s, order, &its, nullptr, "C11")) return -2;
    for (size_t i = 0; i < its.size(); ++i)
      if (its[i] == it) return static_cast<int>(i);
    violation("C11,C04", "iterator.neither_end_nor_element", fmt("%s returned an iterator that is neither end() nor an iterator to an element of the set", what));
    return -2;
  }
  template <class Set>
  void expect_elem(const Set &s, typename Set::const_iterator it, const char *what, const Val *want, bool exact_payload) {
    int c = classify(s, it, what);
    if (c == -2) return;
    MonScope m;
    if (want == nullptr) {
      if (c != -1) violation("C11,C04", "iterator.should_be_end", fmt("%s: expected end()", what));
      return;
    }
    if (c == -1) { violation("C11,C04", "iterator.unexpected_end", fmt("%s returned end() although it designates element with key %d", what, want->key)); return; }
    Val got = EI<E>::val(*it);
    if (got.key != want->key || (exact_payload && got.pay != want->pay)) violation("C11,C04", "iterator.wrong_element", fmt("%s designates %d.%u, expected %d.%u", what, got.key, got.pay, want->key, want->pay));
  }

  // heterogeneous lookups under a transparent comparator: an int key (equivalent to at most one element) and a HalfKey
  // (equivalent to a run of elements: std::set::count returns the length of the run, find any element of it)
  template <class Set, class Model, class C = typename SSInfo<Set>::cmp>
  typename std::enable_if<CmpTransparent<C>::value>::type hetero_lookups(const Set &s, const Model &m, int key) {
    for (int form = 0; form < 2; ++form) {
      typename Set::const_iterator fit;
      bool c = false;
      size_t cnt = 9, mc = 0;
      HalfKey hk(key >> 1);
      if (form == 0) window([&] { fit = s.find(key); c = s.contains(key); cnt = s.count(key); });
      else window([&] { fit = s.find(hk); c = s.contains(hk); cnt = s.count(hk); });
      if (threw) { violation("C04", "model.unexpected_exception", threw_what); return; }
      { MonScope mm; mc = form == 0 ? m.count(key) : m.count(hk); }
      int cl = classify(s, fit, "find(heterogeneous key)");
      if (cl == -2) return;
      MonScope mm;
      bool found_ok = mc == 0 ? cl == -1 : (cl != -1 && (form == 0 ? EI<E>::val(*fit).key == key : (EI<E>::val(*fit).key >> 1) == hk.c));
      if (!found_ok || c != (mc != 0) || cnt != mc)
        violation("C04", "model.heterogeneous_lookup", fmt("heterogeneous key (%s %d) equivalent to %zu elements: contains %d, count %zu, find %s", form == 0 ? "int" : "half-key", form == 0 ? key : hk.c, mc, c, cnt, cl == -1 ? "end()" : "an element"));
      ++counters[mc > 1 ? "hetero_lookups_run_gt_1" : "hetero_lookups"];
    }
  }
  template <class Set, class Model, class C = typename SSInfo<Set>::cmp>
  typename std::enable_if<!CmpTransparent<C>::value>::type hetero_lookups(const Set &, const Model &, int) {}

  E *hold = nullptr;
  E *make_hold(Val v) { MonScope m; hold = new E(v.key, v.pay); return hold; }
  void drop_hold() { MonScope m; delete hold; hold = nullptr; }
  template <class X> static void adopt(const X &) {}
  template <int K, int P> static void adopt(const Tracked<K, P> &t) { ledger_adopt(t); }

  template <class Set>
  typename Set::const_iterator nth(const Set &s, int i) { auto it = s.begin(); for (int k = 0; k < i; ++k) ++it; return it; }

  template <class S_>
  static typename std::enable_if<!std::is_pointer<typename S_::const_iterator>::value>::type extract_pos(S_ &s, typename S_::const_iterator it, typename S_::node_type &nh) { nh = s.extract(it); }
  template <class S_>
  static typename std::enable_if<std::is_pointer<typename S_::const_iterator>::value>::type extract_pos(S_ &, typename S_::const_iterator, typename S_::node_type &) {}

  // The element of the model equivalent to v (or null)
  template <class Model>
  static const Val *mfind(const Model &m, const Val &v) { auto it = m.find(v); return it == m.end() ? nullptr : &*it; }

  // ---- one operation, fully judged -----------------------------------------------------------------------------
  // `quiet`: replaying a path (already judged once) - still monitored, cells not counted
  template <class Set>
  void apply(SetBox<E, Set> &b, const Op &op, bool count_cell) {
    typedef typename SetBox<E, Set>::Model Model;
    Set &s = *b.obj;
    Model &m = *b.model;
    const uintmax_t N = SSInfo<Set>::kN;
    const size_t sz0 = m.size();
    std::string st0 = stcls(s);
    const bool ent0 = b.entitled;
    bool alloc_ok = false;  // may this call allocate without breaking the C05 promise
    auto note = [&](const std::string &ac) {
      if (count_cell) set_op(opname(op.k), st0, ac, op.str());
      else { MonScope mm; g_cur_sig = std::string(opname(op.k)) + "/" + st0 + "/" + ac; g_cur_desc = op.str(); }
    };
    switch (op.k) {
      case O_INS_C:
      case O_INS_M:
      case O_EMPLACE:
      case O_INS_HINT:
      case O_EMPLACE_HINT: {
        Val x = mkval(op.key);
        const Val *ex = mfind(m, x);
        bool present = ex != nullptr;
        note(std::string(present ? "present" : "absent") + (sz0 == N && !present ? ",crosses" : ""));
        typename Set::const_iterator rit;
        bool ins = false, has_bool = true;
        E *e = make_hold(x);
        if (op.k == O_INS_C) window([&] { auto r = s.insert(*e); rit = r.first; ins = r.second; });
        else if (op.k == O_INS_M) window([&] { auto r = s.insert(std::move(*e)); rit = r.first; ins = r.second; });
        else if (op.k == O_EMPLACE && (op.key + static_cast<int>(sz0)) % 3 == 0) {
          // a single argument of another type that converts to the element (the element is built first, as std::set does)
          Proto pr; pr.key = x.key; pr.pay = x.pay; pr.half = 1;
          window([&] { auto r = s.emplace(pr); rit = r.first; ins = r.second; });
        }
        else if (op.k == O_EMPLACE) window([&] { auto r = s.emplace(x.key, x.pay); rit = r.first; ins = r.second; });
        else if (op.k == O_INS_HINT) { has_bool = false; window([&] { rit = s.insert(op.i == 0 ? s.begin() : s.end(), *e); }); }
        else { has_bool = false; window([&] { rit = s.emplace_hint(op.i == 0 ? s.begin() : s.end(), x.key, x.pay); }); }
        drop_hold();
        if (threw) { violation("C04", "model.unexpected_exception", threw_what); return; }
        Val keep;
        {
          MonScope mm;
          auto r = m.insert(x);
          keep = *r.first;
          if (has_bool && ins != r.second) violation("C04", "model.insert_bool", fmt("insertion flag %d, std::set gives %d", ins, r.second));
        }
        if (m.size() > N) b.entitled = false;
        expect_elem(s, rit, opname(op.k), &keep, true);
        break;
      }
      case O_ERASE_KEY: {
        Val x = mkval(op.key);
        bool present = mfind(m, x) != nullptr;
        note(present ? (sz0 == 1 ? "present,last-one" : "present") : "absent");
        size_t r = 99;
        const E *own = nullptr;
        if (present && ((op.key + static_cast<int>(sz0)) & 1) == 0) {
          // the key is a reference to the element of the set itself (as std::set allows): it dies during the call
          MonScope mm;
          const Val want = *mfind(m, x);
          const Set &cs0 = s;
          for (auto it = cs0.begin(); it != cs0.end(); ++it) if (EI<E>::val(*it).same(want)) { own = &*it; break; }
        }
        if (own) {
          note("own-element");
          window([&] { r = s.erase(*own); });
        } else {
          E *e = make_hold(x);
          window([&] { r = s.erase(*e); });
          drop_hold();
        }
        if (threw) { violation("C04", "model.unexpected_exception", threw_what); return; }
        MonScope mm;
        size_t er = m.erase(x);
        if (r != er) violation("C04", "model.erase_count", fmt("erase(key) returned %zu, std::set %zu", r, er));
        break;
      }
      case O_ERASE_POS: {
        if (op.i >= static_cast<int>(sz0)) return;
        note(sz0 == 1 ? "last-one" : "pos");
        std::vector<Val> order;
        { MonScope mm; if (!walk(s, order, nullptr, nullptr, "C11")) return; }
        Val victim = order[op.i];
        typename Set::const_iterator rit;
        auto pit = nth(s, op.i);
        window([&] { rit = s.erase(pit); });
        if (threw) { violation("C04", "model.unexpected_exception", threw_what); return; }
        { MonScope mm; m.erase(victim); }
        int c = classify(s, rit, "erase(position)");
        if (c == -2) return;
        if (c >= 0) {
          MonScope mm;
          // must designate a remaining element (which one is "next" depends on the internal order; in the large state it is the successor)
          Val got = EI<E>::val(*rit);
          if (mfind(m, got) == nullptr) violation("C11", "iterator.erased_element", "erase(position) returned an iterator to an element that is not in the set");
        }
        break;
      }
      case O_ERASE_RANGE: {
        if (op.i > op.j || op.j > static_cast<int>(sz0)) return;
        note(op.i == op.j ? "empty" : (op.j - op.i == static_cast<int>(sz0) ? "all" : "some"));
        std::vector<Val> order;
        { MonScope mm; if (!walk(s, order, nullptr, nullptr, "C11")) return; }
        typename Set::const_iterator rit;
        auto f = nth(s, op.i), l = nth(s, op.j);
        // erasing moves elements with amc's own helpers only: an element move-assigned onto itself loses its value (as a std::vector or a long std::string would)
        g_selfmove_poison = true;
        window([&] { rit = s.erase(f, l); });
        g_selfmove_poison = false;
        if (threw) { violation("C04", "model.unexpected_exception", threw_what); return; }
        { MonScope mm; for (int q = op.i; q < op.j; ++q) m.erase(order[q]); }
        int c = classify(s, rit, "erase(first,last)");
        if (c == -2) return;
        break;
      }
      case O_EXTRACT_KEY:
      case O_EXTRACT_POS:
      case O_REINSERT_NODE: {
        Val x = mkval(op.key);
        Val want;
        bool present;
        typename Set::node_type *nh;
        { MonScope mm; nh = new typename Set::node_type(); }
        if (op.k == O_EXTRACT_POS) {
          // extract(position) does not compile for a FlatSet-backed SmallSet (pointer iterators): not offered there
          if (op.i >= static_cast<int>(sz0) || std::is_pointer<typename Set::const_iterator>::value) { MonScope mm; delete nh; return; }
          std::vector<Val> order;
          { MonScope mm; if (!walk(s, order, nullptr, nullptr, "C11")) { delete nh; return; } }
          want = order[op.i];
          present = true;
          note(sz0 == 1 ? "last-one" : "pos");
          auto pit = nth(s, op.i);
          window([&] { extract_pos(s, pit, *nh); });
        } else {
          const Val *ex = mfind(m, x);
          present = ex != nullptr;
          if (present) want = *ex;
          note(present ? (sz0 == 1 ? "present,last-one" : "present") : "absent");
          E *e = make_hold(x);
          window([&] { *nh = s.extract(*e); });
          drop_hold();
        }
        if (threw) { violation("C04", "model.unexpected_exception", threw_what); MonScope mm; delete nh; return; }
        {
          MonScope mm;
          if (!present) { if (!nh->empty()) violation("C04", "node.extract_absent", "extract of an absent key returned a non-empty node"); }
          else if (nh->empty()) violation("C04", "node.extract_empty", "extract of a present element returned an empty node");
          else {
            adopt(nh->value());
            if (!EI<E>::val(nh->value()).same(want)) violation("C04", "node.extract_value", "extracted node holds another value");
            m.erase(want);
          }
        }
        if (op.k == O_REINSERT_NODE && !g_cut) {
          // op.j: 0 = insert the node back, 1 = insert an equivalent value first so that the node insertion must fail, 2 = hinted
          Val blocker;
          bool blocked = false;
          if (op.j == 1 && present) {
            blocker = mkval(want.key);
            window([&] { s.emplace(blocker.key, blocker.pay); });
            MonScope mm;
            m.insert(blocker);
            blocked = true;
            if (m.size() > N) b.entitled = false;
          }
          bool ins = false, node_empty = true;
          Val node_val;
          typename Set::const_iterator rit;
          if (op.j == 2) {
            window([&] { rit = s.insert(s.begin(), std::move(*nh)); });
            MonScope mm;
            node_empty = nh->empty();
            if (!node_empty) { adopt(nh->value()); node_val = EI<E>::val(nh->value()); }
            ins = present && !blocked;
          } else {
            window([&] {
              auto r = s.insert(std::move(*nh));
              rit = r.position;
              ins = r.inserted;
              g_in_call = false;
              MonScope mm;
              node_empty = r.node.empty();
              if (!node_empty) { adopt(r.node.value()); node_val = EI<E>::val(r.node.value()); }
              *nh = std::move(r.node);
              if (!nh->empty()) adopt(nh->value());
            });
          }
          if (threw) { violation("C04", "model.unexpected_exception", threw_what); MonScope mm; delete nh; return; }
          if (!present) {
            MonScope mm;
            if (ins) violation("C04", "node.insert_empty", "insert of an empty node reports inserted");
            if (!(rit == s.end())) violation("C04,C11", "node.insert_empty_pos", "insert of an empty node must return end()");
          } else {
            Val keep;
            {
              MonScope mm;
              auto r = m.insert(want);
              keep = *r.first;
              if (op.j != 2 && ins != r.second) violation("C04", "model.insert_bool", "insert(node) flag differs from std::set");
              if (r.second) { if (!node_empty) violation("C04", "node.not_empty_after_insert", "node still owns a value after a successful insert"); }
              else if (node_empty) violation("C04", "node.lost_value", "insert(node) met an equivalent element and the node no longer owns its value");
              else if (!node_val.same(want)) violation("C04", "node.value_changed", "node value changed by a failed insert(node)");
              if (m.size() > N) b.entitled = false;
            }
            expect_elem(s, rit, "insert(node)", &keep, true);
          }
        }
        { MonScope mm; delete nh; }
        break;
      }
      case O_CLEAR: {
        note("-");
        window([&] { s.clear(); });
        MonScope mm;
        m.clear();
        break;
      }
      case O_RANGE:
      case O_IL:
      case O_ASSIGN_IL: {
        std::vector<Val> vals;
        for (int q = 0; q < op.rn; ++q) vals.push_back(mkval(op.r[q]));
        if (op.k == O_RANGE && op.rkind == RK_MSET) multiset_order(vals);
        size_t newc = 0;
        { MonScope mm; Model t(m); if (op.k == O_ASSIGN_IL) t.clear(); for (auto &v : vals) t.insert(v); newc = t.size(); }
        note(fmt("n=%d,%s", op.rn, newc > N && sz0 <= N ? "crosses" : "stays"));
        if (op.k == O_RANGE) with_range<E>(op.rkind, vals, [&](auto f, auto l) { window([&] { s.insert(f, l); }); });
        else with_il(vals, [&](std::initializer_list<E> il) { if (op.k == O_IL) window([&] { s.insert(il); }); else window([&] { s = il; }); });
        if (threw) { violation("C04", "model.unexpected_exception", threw_what); return; }
        MonScope mm;
        if (op.k == O_ASSIGN_IL) m.clear();
        m.insert(vals.begin(), vals.end());
        if (m.size() > N) b.entitled = false;
        break;
      }
      case O_BULK: {  // op.i keys starting at op.key with stride op.j (large inline capacities)
        std::vector<Val> vals;
        for (int q = 0; q < op.i; ++q) vals.push_back(mkval((op.key + q * op.j) % keydom));
        size_t newc = 0;
        { MonScope mm; Model t(m); for (auto &v : vals) t.insert(v); newc = t.size(); }
        note(fmt("n=%d,%s", op.i, newc > N && sz0 <= N ? "crosses" : "stays"));
        with_range<E>(op.rkind == RK_MSET ? static_cast<int>(RK_PTR) : op.rkind, vals, [&](auto f, auto l) { window([&] { s.insert(f, l); }); });
        if (threw) { violation("C04", "model.unexpected_exception", threw_what); return; }
        MonScope mm;
        m.insert(vals.begin(), vals.end());
        if (m.size() > N) b.entitled = false;
        break;
      }
      case O_LOOKUP: {
        Val x = mkval(op.key);
        const Val *ex = mfind(m, x);
        note(ex ? "present" : "absent");
        typename Set::const_iterator fit;
        bool c = false;
        size_t cnt = 9;
        E *e = make_hold(x);
        const Set &cs = s;
        bool irreflexive = true, maxok = true;
        window([&] {
          fit = cs.find(*e); c = cs.contains(*e); cnt = cs.count(*e);
          // key_comp()/value_comp() are copies of the stored comparator (provenance monitor) and strict
          irreflexive = !cs.key_comp()(*e, *e) && !cs.value_comp()(*e, *e);
          maxok = static_cast<size_t>(cs.max_size()) >= static_cast<size_t>(cs.size());
          (void)cs.get_allocator();
        });
        if (!threw && (!irreflexive || !maxok)) violation("C04", "model.observers", "key_comp()/value_comp() not strict or max_size() < size()");
        drop_hold();
        if (threw) { violation("C04", "model.unexpected_exception", threw_what); return; }
        {
          MonScope mm;
          if (c != (ex != nullptr) || cnt != (ex ? 1u : 0u)) violation("C04", "model.contains_count", fmt("contains/count(%d) = %d/%zu, std::set %d", x.key, c, cnt, ex != nullptr));
        }
        Val w = ex ? *ex : Val();
        expect_elem(s, fit, "find", ex ? &w : nullptr, true);
        if (!g_cut) hetero_lookups(s, m, x.key);
        alloc_ok = false;
        break;
      }
      case O_COPY:
      case O_MOVE:
      case O_COPY_ASSIGN:
      case O_MOVE_ASSIGN: {
        note("-");
        SetBox<E, Set> t;
        make(t, m.key_comp());
        if (op.k == O_COPY || op.k == O_MOVE) {
          window([&] { t.obj->~Set(); });
          if (op.k == O_COPY) window([&] { new (t.obj) Set(s); });
          else window([&] { new (t.obj) Set(std::move(s)); });
        } else {
          // give the destination some content first
          for (int q = 0; q < op.i; ++q) { Val y = mkval(q); window([&] { t.obj->emplace(y.key, y.pay); }); }
          if (op.k == O_COPY_ASSIGN) window([&] { *t.obj = s; });
          else window([&] { *t.obj = std::move(s); });
        }
        if (threw) { violation("C04", "model.unexpected_exception", threw_what); return; }
        {
          MonScope mm;
          *t.model = m;
          t.entitled = b.entitled && static_cast<uintmax_t>(op.i) <= N;
        }
        bool moved = op.k == O_MOVE || op.k == O_MOVE_ASSIGN;
        if (moved) {
          // the moved-from set is valid but unspecified: clear it, then it must behave as an empty set
          window([&] { s.clear(); });
          MonScope mm;
          m.clear();
        }
        {
          MonScope mm;
          std::vector<uint32_t> all;
          long vis = 0;
          verify_one(t, all, vis, true);
        }
        if (g_cut) return;
        // continue with the copy: swap it with the original so that the history goes on with the new object
        window([&] { s.swap(*t.obj); });
        {
          MonScope mm;
          m.swap(*t.model);
          bool e1 = b.entitled && t.entitled;
          b.entitled = e1;
          t.entitled = e1;
        }
        unmake(t);
        alloc_ok = true;  // several calls above; C05 is judged per state through verify_one
        break;
      }
      case O_ERASE_LOOP:
      case O_ERASE_IF: {
        // erase every element whose rank in the current walk is in the subset op.j
        std::vector<Val> order;
        { MonScope mm; if (!walk(s, order, nullptr, nullptr, "C11")) return; }
        std::set<unsigned> victims;
        for (size_t q = 0; q < order.size(); ++q) if ((static_cast<unsigned>(op.j) >> (q % 31)) & 1u) victims.insert(order[q].pay);
        note(victims.empty() ? "none" : victims.size() == order.size() ? "all" : "some");
        size_t visited = 0, erased = 0;
        if (op.k == O_ERASE_IF) {
#if __cplusplus >= 202002L
          size_t r = 0;
          window([&] { r = erase_if(s, [&](const E &el) { return victims.count(EI<E>::val(el).pay) != 0; }); });
          if (!threw && r != victims.size()) violation("C04,C11", "model.erase_if_count", "erase_if returned a wrong count");
#else
          return;
#endif
        } else {
          typename Set::const_iterator it;
          window([&] { it = s.begin(); });
          size_t cap = order.size() + 1, steps = 0;
          while (!g_cut) {
            bool atend = false;
            window([&] { atend = it == s.end(); });
            if (atend) break;
            if (steps++ >= cap) { violation("C11", "erase_loop.not_terminating", fmt("the erase-while-iterating loop did not terminate within size()+1=%zu steps", cap)); break; }
            if (classify(s, it, "erase loop iterator") < 0) { if (!g_cut) violation("C11", "erase_loop.bad_iterator", "loop iterator is end() although it != end()"); break; }
            Val cur = EI<E>::val(*it);
            ++visited;
            if (victims.count(cur.pay)) { window([&] { it = s.erase(it); }); ++erased; }
            else window([&] { ++it; });
            if (threw) { violation("C04", "model.unexpected_exception", threw_what); return; }
          }
          if (!g_cut && (visited != order.size() || erased != victims.size()))
            violation("C11", "erase_loop.visit_count", fmt("the erase loop visited %zu of %zu elements and erased %zu of %zu", visited, order.size(), erased, victims.size()));
        }
        if (threw) { violation("C04", "model.unexpected_exception", threw_what); return; }
        MonScope mm;
        for (auto &v : order) if (victims.count(v.pay)) m.erase(v);
        alloc_ok = true;
        break;
      }
      case O_WALK: {
        note("-");
        break;
      }
    }
    if (g_cut) return;
    // C05: no allocation while entitled (single-call operations only)
    if (ent0 && b.entitled && !alloc_ok && op.k != O_REINSERT_NODE) {
      ++counters["entitled_calls"];
      if (reqs() != 0) violation("C05", "smallset.allocation", fmt("%ju allocator/malloc request(s) during a call on a SmallSet that never held more than N elements", static_cast<uintmax_t>(reqs())));
    } else if (reqs() != 0) ++counters["unentitled_alloc_calls"];
    MonScope mm;
    std::vector<uint32_t> all;
    long vis = 0;
    verify_one(b, all, vis, true);
  }

  template <class F>
  void with_il(const std::vector<Val> &vals, F &&f) {
    switch (vals.size()) {
      case 0: { std::initializer_list<E> il = {}; f(il); break; }
      case 1: { g_monitor_depth++; std::initializer_list<E> il = {E(vals[0].key, vals[0].pay)}; g_monitor_depth--; f(il); g_monitor_depth++; }
        g_monitor_depth--; break;
      case 2: { g_monitor_depth++; std::initializer_list<E> il = {E(vals[0].key, vals[0].pay), E(vals[1].key, vals[1].pay)}; g_monitor_depth--; f(il); g_monitor_depth++; }
        g_monitor_depth--; break;
      default: { g_monitor_depth++; std::initializer_list<E> il = {E(vals[0].key, vals[0].pay), E(vals[1].key, vals[1].pay), E(vals[2].key, vals[2].pay)}; g_monitor_depth--; f(il); g_monitor_depth++; }
        g_monitor_depth--; break;
    }
  }

  // ---- two-container operations ----------------------------------------------------------------------------------
  template <class S1, class S2>
  void do_merge(SetBox<E, S1> &a, SetBox<E, S2> &b, bool count_cell) {
    const uintmax_t N = SSInfo<S1>::kN;
    std::string sts = stcls(*a.obj) + "|" + stcls(*b.obj);
    size_t after;
    { MonScope mm; typename SetBox<E, S1>::Model t(*a.model); for (auto &v : *b.model) t.insert(v); after = t.size(); }
    bool ent0 = a.entitled && b.entitled && after <= N;
    if (count_cell) set_op(std::is_same<S1, S2>::value ? "merge(same-type)" : "merge(other-type)", sts, after > N && a.model->size() <= N ? "crosses" : "stays", fmt("sizes %zu <- %zu", a.model->size(), b.model->size()));
    window([&] { a.obj->merge(*b.obj); });
    if (threw) { violation("C04", "model.unexpected_exception", threw_what); return; }
    {
      MonScope mm;
      a.model->merge(*b.model);
      // the promise only covers merges with other inline sets
      if (a.model->size() > N || !b.entitled) a.entitled = false;
    }
    if (ent0) {
      ++counters["entitled_calls"];
      if (reqs() != 0) violation("C05", "smallset.allocation", fmt("%ju allocation request(s) during merge between inline SmallSets whose result fits N", static_cast<uintmax_t>(reqs())));
    }
    MonScope mm;
    std::vector<uint32_t> all;
    long vis = 0;
    verify_one(a, all, vis, true);
    verify_one(b, all, vis, true);
    if (pair_only) check_ledger(all, vis);
  }
  template <class Set>
  void do_pair(SetBox<E, Set> &a, SetBox<E, Set> &b, int what, bool count_cell) {
    std::string sts = stcls(*a.obj) + "|" + stcls(*b.obj);
    if (what == 0) {
      if (count_cell) set_op("swap", sts, "-", fmt("sizes %zu <-> %zu", a.model->size(), b.model->size()));
      bool ent0 = a.entitled && b.entitled;
      if (rng.chance(1, 2)) window([&] { a.obj->swap(*b.obj); });
      else window([&] { using std::swap; swap(*a.obj, *b.obj); });
      if (threw) { violation("C04", "model.unexpected_exception", threw_what); return; }
      { MonScope mm; a.model->swap(*b.model); a.entitled = b.entitled = ent0; }
      if (ent0) { ++counters["entitled_calls"]; if (reqs() != 0) violation("C05", "smallset.allocation", "allocation during swap of two inline SmallSets"); }
    } else {
      if (count_cell) set_op("compare", sts, a.model->size() == b.model->size() ? "eq-size" : "ne-size", fmt("sizes %zu ? %zu", a.model->size(), b.model->size()));
      bool r[6] = {0, 0, 0, 0, 0, 0};
      window([&] {
        const Set &x = *a.obj, &y = *b.obj;
        r[0] = x == y; r[1] = x != y; r[2] = x < y; r[3] = x <= y; r[4] = x > y; r[5] = x >= y;
      });
      if (threw) { violation("C04", "model.unexpected_exception", threw_what); return; }
      MonScope mm;
      auto &x = *a.model;
      auto &y = *b.model;
      bool e[6] = {x == y, x != y, x < y, x <= y, x > y, x >= y};
      for (int i = 0; i < 6; ++i)
        if (r[i] != e[i]) { violation("C04", "model.comparison", fmt("comparison #%d gives %d, std::set gives %d (%s vs %s)", i, r[i], e[i], vals_str(std::vector<Val>(x.begin(), x.end())).c_str(), vals_str(std::vector<Val>(y.begin(), y.end())).c_str())); break; }
    }
    MonScope mm;
    std::vector<uint32_t> all;
    long vis = 0;
    verify_one(a, all, vis, false);
    verify_one(b, all, vis, false);
    if (pair_only) check_ledger(all, vis);
  }
  void check_ledger(std::vector<uint32_t> &all, long visible) {
    if (!EI<E>::kTracked || g_cut) return;
    if (g_live_lib != visible) violation("C02,C09", "ledger.live_vs_visible", fmt("%ld element objects are alive but %ld are visible through the containers", g_live_lib, visible));
    std::sort(all.begin(), all.end());
    for (size_t i = 1; i < all.size(); ++i)
      if (all[i] == all[i - 1]) { violation("C02", "ledger.duplicate_identity", fmt("object #%u is visible twice", all[i])); break; }
  }
  template <class Set>
  void ledger_single(SetBox<E, Set> &b) {
    MonScope mm;
    if (!EI<E>::kTracked || g_cut) return;
    std::vector<Val> order;
    std::vector<uint32_t> ser;
    if (!walk(*b.obj, order, nullptr, &ser, "C04,C11")) return;
    check_ledger(ser, static_cast<long>(order.size()));
  }
  void end_check() {
    MonScope m;
    g_cur_sig = "end-of-history";
    g_cur_desc = "all containers destroyed";
    if (EI<E>::kTracked && g_live_lib != 0) violation("C02", "ledger.alive_at_end", fmt("%ld element object(s) still alive after all containers were destroyed", g_live_lib));
    if (g_blk_live != 0) violation("C06", "alloc.outstanding_at_end", fmt("%ld block(s) still outstanding after all containers were destroyed", g_blk_live));
  }

  // ---- complete small-scope state space ------------------------------------------------------------------------
  struct AState {
    bool large;
    std::vector<int> keys;
    bool operator<(const AState &o) const { return large != o.large ? large < o.large : keys < o.keys; }
  };
  template <class Set>
  AState abstract(const Set &s) {
    MonScope m;
    AState a;
    a.large = is_large(s);
    std::vector<Val> order;
    walk(s, order, nullptr, nullptr, "C04,C11");
    for (auto &v : order) a.keys.push_back(v.key);
    return a;
  }
  std::vector<Op> all_ops(int maxsize) {
    std::vector<Op> ops;
    auto add = [&](int k, int key, int i, int j) { Op o; o.k = k; o.key = key; o.i = i; o.j = j; ops.push_back(o); };
    for (int key = 0; key < keydom; ++key) {
      add(O_INS_C, key, 0, 0); add(O_INS_M, key, 0, 0); add(O_EMPLACE, key, 0, 0);
      add(O_INS_HINT, key, 0, 0); add(O_INS_HINT, key, 1, 0); add(O_EMPLACE_HINT, key, 0, 0); add(O_EMPLACE_HINT, key, 1, 0);
      add(O_ERASE_KEY, key, 0, 0); add(O_EXTRACT_KEY, key, 0, 0); add(O_LOOKUP, key, 0, 0);
      add(O_REINSERT_NODE, key, 0, 0); add(O_REINSERT_NODE, key, 0, 1); add(O_REINSERT_NODE, key, 0, 2);
    }
    for (int i = 0; i < maxsize; ++i) { add(O_ERASE_POS, 0, i, 0); add(O_EXTRACT_POS, 0, i, 0); }
    for (int i = 0; i <= maxsize; ++i) for (int j = i; j <= maxsize; ++j) add(O_ERASE_RANGE, 0, i, j);
    add(O_CLEAR, 0, 0, 0);
    add(O_COPY, 0, 0, 0); add(O_MOVE, 0, 0, 0);
    for (int i = 0; i < 3; ++i) { add(O_COPY_ASSIGN, 0, i * 2, 0); add(O_MOVE_ASSIGN, 0, i * 2, 0); }
    for (int mask = 0; mask < (1 << maxsize); ++mask) { add(O_ERASE_LOOP, 0, 0, mask); }
#if __cplusplus >= 202002L
    for (int mask = 0; mask < (1 << maxsize); ++mask) { add(O_ERASE_IF, 0, 0, mask); }
#endif
    // ranges of length <= 3 (all of length 1 and 2, a spread of length 3)
    for (int a = 0; a < keydom; ++a) {
      Op o; o.k = O_RANGE; o.rn = 1; o.r[0] = a; o.rkind = a % (RK_N + 1); ops.push_back(o);
      for (int b2 = 0; b2 < keydom; ++b2) {
        Op p; p.k = O_RANGE; p.rn = 2; p.r[0] = a; p.r[1] = b2; p.rkind = (a + b2) % (RK_N + 1); ops.push_back(p);
        for (int c = 0; c < keydom; ++c) {
          Op q; q.k = O_RANGE; q.rn = 3; q.r[0] = a; q.r[1] = b2; q.r[2] = c; q.rkind = (a + b2 + c) % (RK_N + 1); ops.push_back(q);
        }
        Op il; il.k = O_IL; il.rn = 2; il.r[0] = a; il.r[1] = b2; ops.push_back(il);
        Op as; as.k = O_ASSIGN_IL; as.rn = 2; as.r[0] = a; as.r[1] = b2; ops.push_back(as);
      }
    }
    { Op o; o.k = O_RANGE; o.rn = 0; ops.push_back(o); }
    // ranges longer than any 8-bit count (the whole key domain, many times over)
    for (int extra = 0; extra < 3; ++extra) { Op o; o.k = O_BULK; o.key = extra; o.i = 256 + extra; o.j = 1; o.rkind = extra % RK_N; ops.push_back(o); }
    return ops;
  }

  template <class Set>
  void drain_and_refill(SetBox<E, Set> &b) {
    { MonScope mm; g_cur_sig += "+drain-and-refill"; }
    std::vector<int> keys;
    { MonScope mm; for (auto it = b.model->begin(); it != b.model->end(); ++it) keys.push_back(it->key); }
    for (size_t i = 0; i < keys.size() && !g_cut; ++i) { Op e; e.k = O_ERASE_KEY; e.key = keys[i]; apply(b, e, false); }
    if (g_cut) return;
    {
      MonScope mm;
      std::vector<uint32_t> all;
      long vis = 0;
      verify_one(b, all, vis, true);
    }
    if (g_cut) return;
    for (int k = 0; k < 2 && !g_cut; ++k) { Op e; e.k = O_EMPLACE; e.key = k; apply(b, e, false); }
  }

  template <class Set, class C>
  bool build(SetBox<E, Set> &b, const C &c, const std::vector<Op> &path) {
    make(b, c);
    for (size_t i = 0; i < path.size() && !g_cut; ++i) apply(b, path[i], false);
    return !g_cut;
  }

  template <class Set, class C>
  void explore(const C &c, std::map<AState, std::vector<Op> > &seen, long &hidx, long from, long to) {
    std::deque<AState> queue;
    AState init;
    init.large = false;
    seen[init] = std::vector<Op>();
    queue.push_back(init);
    std::vector<Op> ops = all_ops(keydom);
    while (!queue.empty()) {
      AState cur = queue.front();
      queue.pop_front();
      std::vector<Op> path = seen[cur];
      for (size_t oi = 0; oi < ops.size(); ++oi) {
        // every (state, op) edge is one "history": hidx numbers them so that a run can be resumed after a cut
        long my = hidx++;
        const Op &op = ops[oi];
        // structural ops are needed to discover states even when outside [from,to); but they are only *counted* inside
        bool mine = my >= from && my < to;
        bool discovers = op.k <= O_ERASE_POS || op.k == O_CLEAR || op.k == O_RANGE || op.k == O_EXTRACT_KEY || op.k == O_MOVE || op.k == O_ERASE_RANGE;
        if (!mine && !discovers) continue;
        begin_history(0, my, 0x55);
        g_cur_hist = my;
        SetBox<E, Set> b;
        if (!build(b, c, path)) { ++n_cut; return; }
        apply(b, op, mine);
        if (g_cut) { ++n_cut; return; }
        ledger_single(b);
        AState nx = abstract(*b.obj);
        // The abstract state does not capture everything (elements left behind in the container that is not in use, capacities ...): after an
        // operation that rebuilds or hands over contents, drain the set key by key and refill it - what was hidden then becomes observable.
        if (mine && (op.k >= O_EXTRACT_KEY && op.k != O_LOOKUP && op.k != O_WALK && op.k != O_ERASE_LOOP && op.k != O_ERASE_IF)) {
          drain_and_refill(b);
          if (g_cut) { ++n_cut; return; }
        }
        unmake(b);
        end_check();
        if (g_cut) { ++n_cut; return; }
        if (mine) { ++counters["transitions"]; end_history_ok(); }
        if (!seen.count(nx)) {
          std::vector<Op> np = path;
          np.push_back(op);
          seen[nx] = np;
          queue.push_back(nx);
        }
      }
    }
  }

  void run_space(long from, long to, long &next) {
    std::map<AState, std::vector<Op> > seenA, seenB;
    long hidx = 0;
    explore<SetA>(cmpA, seenA, hidx, from, to);
    if (g_cut) { next = g_cur_hist + 1; return; }
    counters["states_A"] = seenA.size();
    long dummy_from = to + 1;  // SetB is explored only to obtain its states (its own edges are judged in the configuration where it is SetA)
    long hb = 0;
    {
      std::map<std::string, uint64_t> saved = counters;
      long h2 = 1000000000;
      explore<SetB>(cmpB, seenB, h2, dummy_from, dummy_from);
      (void)hb;
    }
    if (g_cut) { next = g_cur_hist + 1; return; }
    counters["states_B"] = seenB.size();
    // every ordered pair of reached states
    pair_only = true;
    for (auto &pa : seenA) {
      for (auto &pb : seenA) {
        for (int what = 0; what < 3; ++what) {
          long my = hidx++;
          if (my < from || my >= to) continue;
          begin_history(0, my, 0x56);
          SetBox<E, SetA> a, b;
          // the second operand's comparator object is in another state where the comparator type has state (cmpA is variant 0)
          if (!build(a, cmpA, pa.second) || !build(b, CmpVariant<CmpA>::make(1), pb.second)) { ++n_cut; next = my + 1; return; }
          if (what == 2) do_merge(a, b, true);
          else do_pair(a, b, what, true);
          if (g_cut) { ++n_cut; next = my + 1; return; }
          unmake(a);
          unmake(b);
          end_check();
          if (g_cut) { ++n_cut; next = my + 1; return; }
          ++counters["pair_transitions"];
          end_history_ok();
        }
      }
      for (auto &pb : seenB) {
        for (int dir = 0; dir < 2; ++dir) {
          long my = hidx++;
          if (my < from || my >= to) continue;
          begin_history(0, my, 0x57);
          SetBox<E, SetA> a;
          SetBox<E, SetB> b;
          if (!build(a, cmpA, pa.second) || !build(b, cmpB, pb.second)) { ++n_cut; next = my + 1; return; }
          if (dir == 0) do_merge(a, b, true);
          else do_merge(b, a, true);
          if (g_cut) { ++n_cut; next = my + 1; return; }
          unmake(a);
          unmake(b);
          end_check();
          if (g_cut) { ++n_cut; next = my + 1; return; }
          ++counters["pair_transitions"];
          end_history_ok();
        }
      }
    }
    counters["total_edges"] = hidx;
    next = to;
  }

  // ---- random histories beyond the small scope ---------------------------------------------------------------
  Op random_op(size_t cursize) {
    Op o;
    static const int weights[][2] = {{O_INS_C, 8}, {O_INS_M, 8}, {O_EMPLACE, 8}, {O_INS_HINT, 4}, {O_EMPLACE_HINT, 4}, {O_ERASE_KEY, 10}, {O_ERASE_POS, 8},
                                     {O_ERASE_RANGE, 4}, {O_EXTRACT_KEY, 3}, {O_EXTRACT_POS, 3}, {O_REINSERT_NODE, 5}, {O_CLEAR, 2}, {O_RANGE, 8}, {O_LOOKUP, 8},
                                     {O_COPY, 2}, {O_MOVE, 2}, {O_COPY_ASSIGN, 2}, {O_MOVE_ASSIGN, 2}, {O_ERASE_LOOP, 4}, {O_IL, 2}, {O_ASSIGN_IL, 1}, {O_ERASE_IF, 2}};
    int tot = 0;
    for (auto &w : weights) tot += w[1];
    int r = rng.below(tot);
    for (auto &w : weights) { if (r < w[1]) { o.k = w[0]; break; } r -= w[1]; }
    o.key = rng.below(keydom);
    o.i = cursize ? rng.below(static_cast<uint32_t>(cursize)) : 0;
    if (o.k == O_INS_HINT || o.k == O_EMPLACE_HINT) o.i = rng.below(2);
    if (o.k == O_COPY_ASSIGN || o.k == O_MOVE_ASSIGN) o.i = rng.below(6);
    o.j = o.k == O_REINSERT_NODE ? rng.below(3) : 0;
    if (o.k == O_ERASE_RANGE) { o.i = rng.below(static_cast<uint32_t>(cursize + 1)); o.j = o.i + rng.below(static_cast<uint32_t>(cursize - o.i + 1)); }
    if (o.k == O_ERASE_LOOP || o.k == O_ERASE_IF) { int m = rng.below(4); o.j = m == 0 ? 0x7FFFFFFF : m == 1 ? (1 << ((cursize ? cursize - 1 : 0) % 31)) : static_cast<int>(rng.next() & 0xFFFFF); }
    o.rn = rng.below(4);
    if (o.k == O_IL || o.k == O_ASSIGN_IL) o.rn = rng.below(4);
    for (int q = 0; q < 3; ++q) o.r[q] = rng.below(keydom);
    o.rkind = rng.below(RK_N + 1);
    if (SSInfo<SetA>::kN > 16 && rng.chance(1, 6)) {
      o.k = O_BULK;
      o.i = 2 + static_cast<int>(rng.below(static_cast<uint32_t>(SSInfo<SetA>::kN)));
      o.j = 1 + static_cast<int>(rng.below(3));
    }
    if (rng.chance(1, 48)) {
      // a range much longer than the inline capacity (and than what an 8-bit count can hold): 256 .. 256+N+1 or 512 .. elements over the whole key domain
      o.k = O_BULK;
      o.i = (rng.chance(1, 4) ? 512 : 256) + static_cast<int>(rng.below(static_cast<uint32_t>(SSInfo<SetA>::kN + 2)));
      o.j = 1;
    }
    return o;
  }

  bool reloc_mode = false;
  template <class Set>
  void relocate_box(SetBox<E, Set> &b) {
    if (!amc::is_trivially_relocatable<Set>::value) return;
    MonScope m;
    set_op("RELOCATE", stcls(*b.obj), "-", "");
    Set *n = static_cast<Set *>(malloc(sizeof(Set)));
    memcpy(static_cast<void *>(n), static_cast<const void *>(b.obj), sizeof(Set));
    memset(static_cast<void *>(b.obj), 0xDD, sizeof(Set));
    free(b.obj);
    b.obj = n;
    ++counters["relocations"];
  }

  void run_history(uint64_t seed, long h, int nops) {
    begin_history(seed, h, 0x5E7);
    paycnt = 0;
    SetBox<E, SetA> A[3];
    SetBox<E, SetB> B;
    set_op("ctor(comp)", "-", "-", "pool");
    for (int i = 0; i < 3; ++i) make(A[i], CmpVariant<CmpA>::make(i));  // comparator objects in different states where the type has state
    make(B, cmpB);
    // steering: phases that fill beyond N, drain to empty, refill
    for (int i = 0; i < nops && !g_cut && !g_fz_exhausted; ++i) {
      g_cur_op = i + 1;
      int a = rng.below(3);
      uint32_t r = rng.below(100);
      { bool rel = rng.chance(1, 7), onA = rng.chance(3, 4); if (reloc_mode && rel) { if (onA) relocate_box(A[a]); else relocate_box(B); } }
      if (r < 70) {
        Op o = random_op(A[a].model->size());
        int phase = (i / 12) % 3;
        if (phase == 1 && o.k <= O_EMPLACE_HINT && rng.chance(2, 3)) o.k = O_ERASE_KEY;      // drain
        if (phase == 1 && rng.chance(1, 6) && A[a].model->size()) { o.k = O_ERASE_KEY; o.key = A[a].model->begin()->key; }
        if (phase != 1 && o.k == O_ERASE_KEY && rng.chance(1, 2)) o.k = O_EMPLACE;            // fill
        apply(A[a], o, true);
      } else if (r < 80) {
        int b = (a + 1 + rng.below(2)) % 3;
        do_merge(A[a], A[b], true);
      } else if (r < 86) {
        if (rng.chance(1, 2)) do_merge(A[a], B, true); else do_merge(B, A[a], true);
      } else if (r < 96) {
        int b = (a + 1 + rng.below(2)) % 3;
        do_pair(A[a], A[b], rng.chance(1, 3) ? 0 : 1, true);
      } else {
        Op o = random_op(B.model->size());
        if (o.k == O_COPY || o.k == O_MOVE || o.k == O_COPY_ASSIGN || o.k == O_MOVE_ASSIGN) o.k = O_EMPLACE;
        apply(B, o, true);
      }
      if (!g_cut) {
        MonScope mm;
        std::vector<uint32_t> all;
        long vis = 0;
        for (int q = 0; q < 3; ++q) verify_one(A[q], all, vis, false);
        verify_one(B, all, vis, false);
        check_ledger(all, vis);
      }
    }
    if (g_cut) { ++n_cut; return; }
    for (int i = 0; i < 3; ++i) unmake(A[i]);
    unmake(B);
    end_check();
    if (!g_cut) end_history_ok();
  }
};

}  // namespace vf

#ifdef VF_FUZZ
// coverage-guided entry point (libFuzzer): the byte string drives every decision of the history generator (random-history mode)
static vf::SmallSetEngine<Elem, SetA, SetB> *g_fz_eng = nullptr;
static long g_fz_inputs = 0;
static void fz_at_exit() {
  if (g_fz_eng) g_fz_eng->write_summary(VF_CFG_NAME, 0, 0, g_fz_inputs, g_fz_inputs, true);
}
extern "C" int LLVMFuzzerTestOneInput(const uint8_t *data, size_t size) {
  using namespace vf;
  if (!g_fz_eng) {
    MonScope m;
    const char *out = getenv("VF_FUZZ_OUT");
    if (out) open_out(out);
    const char *ring = getenv("VF_FUZZ_RING");
    if (ring) open_ring(ring);
    install_malloc_hook();
    g_elem_relocatable = EI<Elem>::kRelocatable;
    g_selfswap_window = true;
    g_fz_eng = new SmallSetEngine<Elem, SetA, SetB>();
    g_fz_eng->keydom = 3 * static_cast<int>(SSInfo<SetA>::kN) + 4;
    atexit(fz_at_exit);
  }
  g_fz_data = data;
  g_fz_size = size;
  g_fz_pos = 0;
  g_fz_exhausted = false;
  g_fz_on = true;
  g_fz_eng->run_history(0, g_fz_inputs++, 120);
  g_fz_on = false;
  if (g_cut) {
    MonScope m;
    g_fz_eng->write_summary(VF_CFG_NAME, 0, 0, g_fz_inputs, g_fz_inputs, true);
    abort();  // libFuzzer keeps the input as the replay artifact
  }
  return 0;
}
#else
int main(int argc, char **argv) {
  using namespace vf;
  Args a;
  a.parse(argc, argv);
  bool hook = install_malloc_hook();
  g_elem_relocatable = EI<Elem>::kRelocatable;
  g_selfswap_window = true;
  static SmallSetEngine<Elem, SetA, SetB> eng;
  long next = a.from;
  if (a.has("--space")) {
    eng.keydom = 5;
    eng.run_space(a.from, a.to, next);
  } else {
    eng.keydom = 3 * static_cast<int>(SSInfo<SetA>::kN) + 4;
    eng.reloc_mode = a.has("--reloc");
    long h = a.from;
    for (; h < a.to; ++h) {
      eng.run_history(a.seed, h, a.nops);
      if (g_cut) break;
    }
    next = g_cut ? h + 1 : h;
  }
  eng.write_summary(VF_CFG_NAME, a.seed, a.from, next, a.to, hook);
  if (g_cut) _exit(3);
  return 0;
}
#endif
