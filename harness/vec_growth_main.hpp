// C18: growth is geometric.  The including TU defines Elem, Vec (a dynamic vector type), VF_CFG_NAME.
// "history" index = scenario (start state x append method).
#pragma once

#include "engine_base.hpp"
#include "vec_common.hpp"

namespace vf {

template <class Vec>
struct GrowthEngine : EngineBase {
  typedef VecInfo<Vec> I;
  typedef typename I::elem E;
  typedef typename I::size_type SizeT;
  static constexpr int kStarts = 5, kMethods = 5;
  uint64_t max_allocs = 0, growth_steps = 0, n_appends = 0, n_reserve = 0, n_shrink = 0;
  unsigned pay = 0;

  uint64_t reqs_now() const { return g_alloc_requests + g_hooked_mallocs; }

  static const char *start_name(int s) { static const char *n[] = {"empty", "inline-partial", "after-reserve", "after-shrink_to_fit", "moved-from"}; return n[s]; }
  static const char *method_name(int m) { static const char *n[] = {"push_back(const&)", "emplace_back", "insert(end,&&)", "insert(begin,const&)", "append(1)"}; return n[m]; }

  void append_one(Vec &v, int method) {
    ++pay;
    int key = static_cast<int>(pay % 7);
    if (method == 1) { window([&] { v.emplace_back(key, pay); }); return; }
    if (method == 4) { window([&] { v.append(static_cast<SizeT>(1)); }); return; }
    E *e;
    { MonScope m; e = new E(key, pay); }
    if (method == 0) window([&] { v.push_back(*e); });
    else if (method == 2) window([&] { v.insert(v.end(), std::move(*e)); });
    else window([&] { v.insert(v.begin(), *e); });
    MonScope m;
    delete e;
  }

  void run_scenario(long idx, uintmax_t nmax) {
    int start = static_cast<int>(idx % kStarts), method = static_cast<int>((idx / kStarts) % kMethods);
    begin_history(0, idx, 0xC18);
    set_op("append-sweep", start_name(start), method_name(method), fmt("n<=%ju", nmax));
    Vec *v, *w = nullptr;
    { MonScope m; v = static_cast<Vec *>(malloc(sizeof(Vec))); memset(static_cast<void *>(v), 0xA5, sizeof(Vec)); }
    window([&] { new (v) Vec(); });
    switch (start) {
      case 1: for (uintmax_t i = 0; i < I::kN / 2; ++i) append_one(*v, 1); break;
      case 2: window([&] { v->reserve(static_cast<SizeT>(std::min<uintmax_t>(10, I::limit()))); }); break;
      case 3: for (int i = 0; i < 5; ++i) append_one(*v, 1); window([&] { v->shrink_to_fit(); }); break;
      case 4: {
        for (int i = 0; i < 7; ++i) append_one(*v, 1);
        { MonScope m; w = static_cast<Vec *>(malloc(sizeof(Vec))); }
        window([&] { new (w) Vec(std::move(*v)); });
        break;
      }
    }
    if (threw) harness_fail("growth engine: start state construction threw");
    const uintmax_t size0 = static_cast<uintmax_t>(v->size());
    const uint64_t req_start = reqs_now();
    const uint64_t mc_start = g_ev[EV_MCTOR];
    uintmax_t cap = static_cast<uintmax_t>(v->capacity());
    const uintmax_t limit = I::limit();
    uintmax_t target = std::min<uintmax_t>(nmax, limit - size0);
    uint64_t self_moves = 0;
    for (uintmax_t n = 1; n <= target && !g_cut; ++n) {
      append_one(*v, method);
      ++n_appends;
      if (threw) { violation("C18", "growth.unexpected_exception", fmt("append #%ju threw %s", n, threw_what.c_str())); break; }
      if (method == 2) ++self_moves;  // the new element itself is move-constructed from the argument
      uintmax_t ncap = static_cast<uintmax_t>(v->capacity());
      uint64_t calls = reqs_now() - req_start;
      if (calls > max_allocs) max_allocs = calls;
      if (calls > 2ull * ceil_log2u(n) + 4) {
        violation("C18", "growth.too_many_reallocations", fmt("%ju allocator calls after appending %ju elements one by one (bound 2*ceil(log2 n)+4 = %u)", static_cast<uintmax_t>(calls), n, 2 * ceil_log2u(n) + 4));
        break;
      }
      if (ncap != cap) {
        ++growth_steps;
        // a growth step that is not limited by the size_type
        uintmax_t want = (3 * cap + 1) / 2;
        if (ncap < limit && ncap < want) {
          violation("C18", "growth.factor_below_1_5", fmt("capacity grew from %ju to %ju (< ceil(1.5 * old) = %ju) although size_type allows more", cap, ncap, want));
          break;
        }
        cap = ncap;
      }
      if (static_cast<uintmax_t>(v->size()) != size0 + n) { violation("C18,C01", "growth.size", "size() does not follow the appends"); break; }
    }
    if (!g_cut && EI<E>::kTracked && !EI<E>::kRelocatable && method != 3) {
      uint64_t reloc = g_ev[EV_MCTOR] - mc_start - self_moves;
      uintmax_t fin = static_cast<uintmax_t>(v->size());
      counters["relocations_observed"] += reloc;
      if (reloc > 4 * fin + 8) violation("C18", "growth.too_many_relocations", fmt("%ju element relocations while appending up to size %ju (bound 4n+8)", static_cast<uintmax_t>(reloc), fin));
    }
    window([&] { v->~Vec(); });
    if (w) window([&] { w->~Vec(); });
    MonScope m;
    free(v);
    free(w);
    if (!g_cut) end_history_ok();
  }

  static unsigned ceil_log2u(uintmax_t x) { unsigned r = 0; uintmax_t p = 1; while (p < x) { p <<= 1; ++r; } return r; }

  // reserve(n): one allocator call, capacity >= n ; shrink_to_fit: capacity == size (heap), N when it fits inline, 0 for an empty amc::vector
  void run_reserve_shrink(long idx) {
    begin_history(0, idx, 0xC18);
    const uintmax_t limit = std::min<uintmax_t>(I::limit(), 5000);
    uintmax_t fills[] = {0, 1, I::kN / 2, I::kN, I::kN + 1, 2 * I::kN + 3, 40};
    for (uintmax_t fill : fills) {
      if (fill > limit) continue;
      for (int heap_first = 0; heap_first < 2; ++heap_first) {
        uintmax_t targets[] = {fill, fill + 1, I::kN, I::kN + 1, 2 * fill + 1, 100, limit};
        for (uintmax_t n : targets) {
          if (n > limit || g_cut) continue;
          Vec *v;
          { MonScope m; v = static_cast<Vec *>(malloc(sizeof(Vec))); memset(static_cast<void *>(v), 0xA5, sizeof(Vec)); }
          window([&] { new (v) Vec(); });
          if (heap_first) window([&] { v->reserve(static_cast<SizeT>(std::min<uintmax_t>(limit, fill + 7))); });
          for (uintmax_t i = 0; i < fill; ++i) append_one(*v, 1);
          uintmax_t cap0 = static_cast<uintmax_t>(v->capacity());
          set_op("reserve", state_class<Vec>(snap_of(*v)), n <= cap0 ? "within" : "beyond", fmt("fill=%ju n=%ju", fill, n));
          uint64_t r0 = reqs_now();
          window([&] { v->reserve(static_cast<SizeT>(n)); });
          ++n_reserve;
          if (threw) violation("C18", "growth.unexpected_exception", "reserve threw");
          else {
            uint64_t calls = reqs_now() - r0;
            if (calls > 1) violation("C18", "reserve.more_than_one_allocation", fmt("reserve(%ju) from capacity %ju made %ju allocator calls", n, cap0, static_cast<uintmax_t>(calls)));
            if (static_cast<uintmax_t>(v->capacity()) < n) violation("C18,C07", "reserve.capacity_too_small", fmt("capacity() %ju < %ju after reserve", static_cast<uintmax_t>(v->capacity()), n));
          }
          // shrink_to_fit
          if (!g_cut) {
            set_op("shrink_to_fit", state_class<Vec>(snap_of(*v)), fill == 0 ? "empty" : fill <= I::kN ? "fits-inline" : "heap", fmt("fill=%ju", fill));
            window([&] { v->shrink_to_fit(); });
            ++n_shrink;
            if (threw) violation("C18", "growth.unexpected_exception", "shrink_to_fit threw");
            else {
              Snap s = snap_of(*v);
              uintmax_t want = I::kSmall && fill <= I::kN ? I::kN : fill;
              if (s.cap != want) violation("C18", "shrink.capacity", fmt("capacity() is %ju after shrink_to_fit with %ju elements (expected %ju)", s.cap, fill, want));
              if (I::kSmall && fill <= I::kN && !s.inl) violation("C18,C05", "shrink.not_back_inline", "elements fit the inline storage but stay on the heap after shrink_to_fit");
              if (static_cast<uintmax_t>(v->size()) != fill) violation("C18,C01", "shrink.size", "shrink_to_fit changed the size");
            }
          }
          window([&] { v->~Vec(); });
          MonScope m;
          free(v);
        }
      }
    }
    if (!g_cut) end_history_ok();
  }
  static Snap snap_of(const Vec &v) { MonScope m; Snap s; take_snap(v, s); return s; }

  // shrink_to_fit on a SmallVector holding a heap buffer taken over from an amc::vector whose capacity does not exceed N (a state no operation of
  // the SmallVector itself reaches): the elements fit inline, so the capacity must come back to N, inline, whether the buffer was full or not
  template <class V_ = Vec>
  typename std::enable_if<VecInfo<V_>::kSmall>::type run_adopted_shrink(long idx) {
    typedef amc::vector<E, typename I::alloc, SizeT> Donor;
    begin_history(0, idx, 0xC18);
    for (uintmax_t cap = 1; cap <= I::kN && cap <= 12 && !g_cut; ++cap)
      for (uintmax_t fill = (cap > 2 ? cap - 2 : 0); fill <= cap && !g_cut; ++fill)
        for (int route = 0; route < 2 && !g_cut; ++route) {
          Donor *d;
          Vec *v;
          { MonScope m; d = static_cast<Donor *>(malloc(sizeof(Donor))); v = static_cast<Vec *>(malloc(sizeof(Vec))); memset(static_cast<void *>(v), 0xA5, sizeof(Vec)); }
          window([&] { new (d) Donor(); });
          window([&] { d->reserve(static_cast<SizeT>(cap)); });
          for (uintmax_t i = 0; i < fill; ++i) { ++pay; window([&] { d->emplace_back(static_cast<int>(pay % 7), pay); }); }
          if (route == 0) window([&] { new (v) Vec(std::move(*d)); });
          else { window([&] { new (v) Vec(); }); window([&] { *v = Vec(std::move(*d)); }); }
          if (threw) harness_fail("growth engine: adoption threw");
          set_op("shrink_to_fit", std::string("adopted:") + state_class<Vec>(snap_of(*v)), fill == cap ? "full,fits-inline" : "not-full,fits-inline", fmt("donor capacity=%ju size=%ju route=%d", cap, fill, route));
          window([&] { v->shrink_to_fit(); });
          ++n_shrink;
          if (threw) violation("C18", "growth.unexpected_exception", "shrink_to_fit threw");
          else {
            Snap s = snap_of(*v);
            if (s.cap != I::kN) violation("C18", "shrink.capacity", fmt("capacity() is %ju after shrink_to_fit with %ju elements that fit the inline storage (expected N = %ju)", s.cap, fill, static_cast<uintmax_t>(I::kN)));
            if (!s.inl) violation("C18,C05", "shrink.not_back_inline", "elements fit the inline storage but stay on the heap after shrink_to_fit (buffer taken over from an amc::vector)");
            if (static_cast<uintmax_t>(v->size()) != fill) violation("C18,C01", "shrink.size", "shrink_to_fit changed the size");
          }
          window([&] { v->~Vec(); });
          window([&] { d->~Donor(); });
          MonScope m;
          free(v);
          free(d);
        }
    // the same adopted buffers as the destination of a move assignment from an inline source that does not fit them: whatever the vector then does
    // (inline storage again, or a new block), a new block obtained without an explicit request must be at least 1.5 x the old capacity
    for (uintmax_t cap = 1; cap < I::kN && cap <= 12 && !g_cut; ++cap)
      for (uintmax_t m = cap + 1; m <= I::kN && m <= cap + 3 && !g_cut; ++m) {
        Donor *d;
        Vec *v, *src;
        { MonScope mm; d = static_cast<Donor *>(malloc(sizeof(Donor))); v = static_cast<Vec *>(malloc(sizeof(Vec))); src = static_cast<Vec *>(malloc(sizeof(Vec))); memset(static_cast<void *>(v), 0xA5, sizeof(Vec)); }
        window([&] { new (d) Donor(); });
        window([&] { d->reserve(static_cast<SizeT>(cap)); });
        for (uintmax_t i = 0; i + 1 < cap; ++i) { ++pay; window([&] { d->emplace_back(static_cast<int>(pay % 7), pay); }); }
        window([&] { new (v) Vec(std::move(*d)); });
        window([&] { new (src) Vec(); });
        for (uintmax_t i = 0; i < m; ++i) { ++pay; window([&] { src->emplace_back(static_cast<int>(pay % 7), pay); }); }
        if (threw) harness_fail("growth engine: adoption threw");
        Snap before = snap_of(*v);
        set_op("operator=(&&)", std::string("adopted:") + state_class<Vec>(before) + "|inline-source", "source-larger-than-adopted-capacity", fmt("adopted capacity=%ju source size=%ju", cap, m));
        window([&] { *v = std::move(*src); });
        if (threw) violation("C18", "growth.unexpected_exception", "move assignment threw");
        else {
          Snap s = snap_of(*v);
          if (static_cast<uintmax_t>(v->size()) != m) violation("C18,C01", "growth.size", "move assignment from an inline source: wrong size");
          uintmax_t want = (3 * before.cap + 1) / 2;
          if (!s.inl && s.cap > before.cap && s.data != before.data && s.cap < want)
            violation("C18", "growth.factor_below_1_5", fmt("move assignment made the vector allocate a new block of capacity %ju from %ju (< ceil(1.5 * old) = %ju) without an explicit reserve", s.cap, before.cap, want));
        }
        window([&] { v->~Vec(); });
        window([&] { src->~Vec(); });
        window([&] { d->~Donor(); });
        MonScope mm;
        free(v);
        free(src);
        free(d);
      }
    if (!g_cut) end_history_ok();
  }
  template <class V_ = Vec>
  typename std::enable_if<!VecInfo<V_>::kSmall>::type run_adopted_shrink(long idx) { begin_history(0, idx, 0xC18); end_history_ok(); }
};

}  // namespace vf

int main(int argc, char **argv) {
  using namespace vf;
  Args a;
  a.parse(argc, argv);
  install_malloc_hook();
  g_elem_relocatable = EI<Elem>::kRelocatable;
  static GrowthEngine<Vec> eng;
  uintmax_t nmax = a.has("--deep") ? 100000 : 3000;
  long total = GrowthEngine<Vec>::kStarts * GrowthEngine<Vec>::kMethods + 2;
  long to = a.to < total ? a.to : total;
  long h = a.from;
  for (; h < to; ++h) {
    if (h == total - 1) eng.run_adopted_shrink(h);
    else if (h == total - 2) eng.run_reserve_shrink(h);
    else {
      uintmax_t nm = nmax;
      if ((h / GrowthEngine<Vec>::kStarts) % GrowthEngine<Vec>::kMethods == 3) nm = std::min<uintmax_t>(nm, 1500);  // insert(begin) is quadratic
      eng.run_scenario(h, nm);
    }
    if (g_cut) break;
  }
  eng.counters["appends"] = eng.n_appends;
  eng.counters["growth_steps"] = eng.growth_steps;
  eng.counters["max_allocator_calls_in_a_sweep"] = eng.max_allocs;
  eng.counters["reserve_calls"] = eng.n_reserve;
  eng.counters["shrink_calls"] = eng.n_shrink;
  eng.write_summary(VF_CFG_NAME, a.seed, a.from, g_cut ? h + 1 : h, a.to, true);
  if (g_cut) _exit(3);
  return 0;
}
