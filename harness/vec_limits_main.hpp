// C08: capacity-limit errors are clean.  Complete boundary grid executed cell by cell.
// The including TU defines Elem, Vec, VF_CFG_NAME.  "history" index = operation id.
#pragma once

#include "vec_grid_common.hpp"

namespace vf {

enum LimOp {
  L_PUSH_C = 0, L_PUSH_M, L_EMPLACE_BACK, L_EMPLACE, L_INSERT_C, L_INSERT_M, L_INSERT_N, L_INSERT_RANGE, L_INSERT_IL, L_RESIZE, L_RESIZE_V,
  L_ASSIGN_N, L_ASSIGN_RANGE, L_ASSIGN_IL, L_APPEND_RANGE, L_APPEND_N, L_APPEND_NV, L_APPEND_IL, L_RESERVE, L_CTOR_N, L_CTOR_NV, L_CTOR_RANGE, L_CTOR_IL, L_AT, L_N
};
inline const char *limname(int o) {
  static const char *n[] = {"push_back(const&)", "push_back(&&)", "emplace_back", "emplace", "insert(pos,const&)", "insert(pos,&&)", "insert(pos,n,v)",
                            "insert(pos,range)", "insert(pos,il)", "resize(n)", "resize(n,v)", "assign(n,v)", "assign(range)", "assign(il)", "append(range)",
                            "append(n)", "append(n,v)", "append(il)", "reserve", "ctor(n)", "ctor(n,v)", "ctor(range)", "ctor(il)", "at"};
  return n[o];
}

template <class Vec>
struct LimitGrid : GridBase {
  typedef VecInfo<Vec> I;
  typedef typename I::elem E;
  typedef typename I::size_type SizeT;
  uint64_t n_cells = 0, n_throw_cells = 0, n_fit_cells = 0, n_skipped = 0;
  bool deep = false;

  static uintmax_t limit() { return I::limit(); }
  static uintmax_t stmax() { return static_cast<uintmax_t>(std::numeric_limits<SizeT>::max()); }

  // fast construction of a container with `size` elements: a prefix of value-initialised elements, then up to 4 distinct ones
  bool build_fast(Box<Vec> &b, uintmax_t size, int spare) {
    b.obj = raw_new<Vec>();
    b.model.clear();
    window([&] { new (b.obj) Vec(); });
    if (spare == 1 && !I::kFixed) {  // room up to the limit already reserved
      window([&] { b.obj->reserve(static_cast<SizeT>(limit())); });
      if (threw) return false;
    }
    uintmax_t tail = std::min<uintmax_t>(size, 4), head = size - tail;
    if (head) {
      window([&] { b.obj->append(static_cast<SizeT>(head)); });
      if (threw) return false;
      b.model.assign(head, EI<E>::norm(Val(0, 0)));
    }
    for (uintmax_t i = 0; i < tail; ++i) {
      Val x = EI<E>::norm(Val(static_cast<int>(1 + i % 5), ++paycnt));
      window([&] { b.obj->emplace_back(x.key, x.pay); });
      if (threw) return false;
      b.model.push_back(x);
    }
    if (spare == 2 && !I::kFixed) {  // no spare capacity at all
      window([&] { b.obj->shrink_to_fit(); });
      if (threw) return false;
    }
    return true;
  }

  std::vector<uintmax_t> fills() {
    std::vector<uintmax_t> f;
    uintmax_t L = limit();
    if (kWide) { f.push_back(1); f.push_back(3); if (I::kSmall) f.push_back(I::kN + 1); return f; }
    if (L <= 8) { for (uintmax_t i = 0; i <= L; ++i) f.push_back(i); }
    else {
      f.push_back(0); f.push_back(1);
      if (I::kSmall) { f.push_back(I::kN); f.push_back(I::kN + 1); }
      for (uintmax_t i = L - (deep ? 5 : 3); i <= L; ++i) f.push_back(i);
    }
    return f;
  }
  std::vector<uintmax_t> counts(uintmax_t size, bool single) {
    std::vector<uintmax_t> c;
    if (single) { c.push_back(1); return c; }
    uintmax_t L = limit();
    if (kWide) {  // only counts with size + count > max(size_type)
      c.push_back(stmax());
      c.push_back(stmax() - 1);
      c.push_back(stmax() - size + 1);
      c.push_back(stmax() - size + 2);
      std::sort(c.begin(), c.end());
      c.erase(std::unique(c.begin(), c.end()), c.end());
      return c;
    }
    for (uintmax_t t = (L > 1 ? L - 1 : 0); t <= L + 3; ++t)
      if (t >= size && t - size <= stmax()) c.push_back(t - size);
    c.push_back(0);
    c.push_back(stmax());
    c.push_back(stmax() - 1);
    if (size <= 2) { c.push_back(1); c.push_back(2); }
    std::sort(c.begin(), c.end());
    c.erase(std::unique(c.begin(), c.end()), c.end());
    return c;
  }

  template <class F>
  void with_il(const std::vector<Val> &vals, F &&f) {
    switch (vals.size()) {
      case 0: { std::initializer_list<E> il = {}; f(il); break; }
      case 1: { g_monitor_depth++; std::initializer_list<E> il = {E(vals[0].key, vals[0].pay)}; g_monitor_depth--; f(il); g_monitor_depth++; }
        g_monitor_depth--; break;
      case 2: { g_monitor_depth++; std::initializer_list<E> il = {E(vals[0].key, vals[0].pay), E(vals[1].key, vals[1].pay)}; g_monitor_depth--; f(il); g_monitor_depth++; }
        g_monitor_depth--; break;
      default: { g_monitor_depth++; std::initializer_list<E> il = {E(vals[0].key, vals[0].pay), E(vals[1].key, vals[1].pay), E(vals[2].key, vals[2].pay)}; g_monitor_depth--; f(il); g_monitor_depth++; }
        g_monitor_depth--; break;
    }
  }

  // 32-bit (and wider) size types: only the calls whose count argument can push size()+count beyond the maximum are meaningful, and only their
  // exceeding side can be executed (the fitting side would need gigabytes). The expected verdict is still computed in uintmax_t by the harness.
  static constexpr bool kWide = sizeof(SizeT) >= 4 && !I::kFixed;

  void run_op(int op, long idx) {
    begin_history(0, idx, 0xC08);
    if (kWide && !(op == L_INSERT_N || op == L_APPEND_N || op == L_APPEND_NV)) { end_history_ok(); return; }
    const bool is_ctor = op >= L_CTOR_N && op <= L_CTOR_IL;
    const bool single = op <= L_INSERT_M;
    const bool uses_pos = op == L_EMPLACE || (op >= L_INSERT_C && op <= L_INSERT_IL);
    const bool is_il = op == L_INSERT_IL || op == L_ASSIGN_IL || op == L_APPEND_IL || op == L_CTOR_IL;
    std::vector<uintmax_t> fl = is_ctor ? std::vector<uintmax_t>(1, 0) : fills();
    for (size_t fi = 0; fi < fl.size() && !g_cut; ++fi) {
      uintmax_t size = fl[fi];
      for (int spare = 0; spare < (I::kFixed || is_ctor ? 1 : 3) && !g_cut; ++spare) {
        if (kWide && spare == 1) continue;  // reserving up to the maximum of a 32-bit size_type is not possible
        std::vector<uintmax_t> cs = op == L_AT ? std::vector<uintmax_t>{0, 1, stmax() > size ? stmax() - size : 0} : counts(size, single);
        if (op == L_INSERT_RANGE || op == L_ASSIGN_RANGE || op == L_APPEND_RANGE || op == L_CTOR_RANGE) {
          // the length of a range is not bounded by the size_type: lengths beyond its maximum, in particular those that would fit again once
          // reduced modulo 2^bits (8-bit size types always, 16-bit ones in the deep grid)
          if (stmax() <= 255 || (deep && stmax() <= 65535 && spare == 0)) {
            uintmax_t wrap = stmax() + 1, room = limit() > size ? limit() - size : 0;
            cs.push_back(wrap);
            cs.push_back(wrap + 1);
            cs.push_back(wrap + room);
            cs.push_back(wrap + room / 2);
            if (stmax() <= 255) cs.push_back(2 * wrap + 1);
            std::sort(cs.begin(), cs.end());
            cs.erase(std::unique(cs.begin(), cs.end()), cs.end());
          }
        }
        uintmax_t posc[] = {0, 1, size / 2, size ? size - 1 : 0, size};
        std::vector<uintmax_t> ps;
        if (uses_pos) { for (uintmax_t p : posc) if (p <= size) ps.push_back(p); std::sort(ps.begin(), ps.end()); ps.erase(std::unique(ps.begin(), ps.end()), ps.end()); }
        else ps.push_back(size);
        for (size_t ci = 0; ci < cs.size() && !g_cut; ++ci) {
          uintmax_t c = cs[ci];
          if (is_il && c > 3) continue;
          bool range_op = op == L_INSERT_RANGE || op == L_ASSIGN_RANGE || op == L_APPEND_RANGE || op == L_CTOR_RANGE;
          if (range_op && c > 300 && !(c > stmax() && c <= stmax() + 600)) continue;  // a range has a real length
          for (size_t pi = 0; pi < ps.size() && !g_cut; ++pi)
            for (int kind = 0; kind < (range_op ? (c > 1000 ? 2 : 4) : (op == L_PUSH_M || op == L_INSERT_M) ? 2 : 1) && !g_cut; ++kind) cell(op, size, spare, ps[pi], c, kind);
        }
      }
    }
    if (!g_cut) end_history_ok();
  }

  void cell(int op, uintmax_t size, int spare, uintmax_t pos, uintmax_t c, int kind) {
    const bool is_ctor = op >= L_CTOR_N && op <= L_CTOR_IL;
    Box<Vec> b;
    if (!is_ctor) {
      if (!build_fast(b, size, spare)) { ++n_skipped; destroy(b); cell_end<E>("C08"); return; }
    }
    ++n_cells;
    // what the call asks for, computed independently of the library's arithmetic
    bool total_form = op == L_RESIZE || op == L_RESIZE_V || op == L_RESERVE;     // argument is the resulting size: size + c
    bool assign_form = op == L_ASSIGN_N || op == L_ASSIGN_RANGE || op == L_ASSIGN_IL || is_ctor;  // resulting size is c
    uintmax_t result = assign_form ? c : size + c;
    uintmax_t arg = total_form ? size + c : c;  // the number passed to the call
    if (arg > stmax() && !(op == L_INSERT_RANGE || op == L_ASSIGN_RANGE || op == L_APPEND_RANGE || op == L_CTOR_RANGE)) { destroy(b); cell_end<E>("C08"); --n_cells; return; }
    if (op == L_AT && size + c > stmax()) { destroy(b); cell_end<E>("C08"); --n_cells; return; }
    if (kWide && result <= limit()) { destroy(b); cell_end<E>("C08"); --n_cells; return; }
    bool fits = result <= limit();
    if (op == L_RESERVE) fits = arg <= limit();
    if (op == L_AT) fits = false;
    // kind 1 of the rvalue forms: the argument is an element of the vector itself, v.push_back(std::move(v[i])). Only where the call must fail:
    // "contents exactly as before" then includes the element the argument refers to (where the call succeeds the element is legitimately moved from)
    const bool alias_rvalue = (op == L_PUSH_M || op == L_INSERT_M) && kind == 1;
    if (alias_rvalue && (fits || size == 0)) { destroy(b); cell_end<E>("C08"); --n_cells; return; }
    Snap before;
    long live_before = 0, blk_before = 0;
    if (!is_ctor) { before = snap(*b.obj); live_before = g_live_lib; blk_before = g_blk_live; }
    set_op(limname(op), is_ctor ? "-" : state_class<Vec>(before), std::string(fits ? "fits" : "exceeds") + (c == 0 ? ",c=0" : c > stmax() ? ",c>max" : c >= stmax() - 1 ? ",c=max" : "") + (spare == 1 ? ",reserved" : spare == 2 ? ",tight" : "") + ((op == L_PUSH_M || op == L_INSERT_M) && kind == 1 ? ",argument=own-element" : ""),
           fmt("size=%ju pos=%ju count=%ju limit=%ju kind=%d", size, pos, c, limit(), kind));
    std::vector<Val> vals;
    bool vals_needed = op == L_INSERT_RANGE || op == L_INSERT_IL || op == L_ASSIGN_RANGE || op == L_ASSIGN_IL || op == L_APPEND_RANGE || op == L_APPEND_IL || op == L_CTOR_RANGE || op == L_CTOR_IL;
    if (vals_needed) for (uintmax_t i = 0; i < c; ++i) vals.push_back(EI<E>::norm(Val(static_cast<int>(i % 6), ++paycnt)));
    Val x = EI<E>::norm(Val(5, ++paycnt));
    E *e;
    { MonScope m; e = new E(x.key, x.pay); }
    std::vector<Val> &m = b.model;
    Vec *vp = b.obj;
    static const int kinds[] = {RK_PTR, RK_RA, RK_LIST, RK_FWD};
    long ret = -2, exp = -2;
    bool at_ok = false;
    switch (op) {
      case L_PUSH_C: window([&] { vp->push_back(*e); }); break;
      case L_PUSH_M:
        if (alias_rvalue) window([&] { vp->push_back(std::move((*vp)[static_cast<SizeT>(size / 2)])); });
        else window([&] { vp->push_back(std::move(*e)); });
        break;
      case L_EMPLACE_BACK: window([&] { vp->emplace_back(x.key, x.pay); }); break;
      case L_EMPLACE: window([&] { auto it = vp->emplace(vp->begin() + pos, x.key, x.pay); ret = it - vp->begin(); }); exp = pos; break;
      case L_INSERT_C: window([&] { auto it = vp->insert(vp->begin() + pos, *e); ret = it - vp->begin(); }); exp = pos; break;
      case L_INSERT_M:
        if (alias_rvalue) window([&] { auto it = vp->insert(vp->begin() + pos, std::move((*vp)[static_cast<SizeT>(size - 1)])); ret = it - vp->begin(); });
        else window([&] { auto it = vp->insert(vp->begin() + pos, std::move(*e)); ret = it - vp->begin(); });
        exp = pos;
        break;
      case L_INSERT_N: window([&] { auto it = vp->insert(vp->begin() + pos, static_cast<SizeT>(c), *e); ret = it - vp->begin(); }); exp = pos; break;
      case L_INSERT_RANGE: with_range<E>(kinds[kind], vals, [&](auto f, auto l) { window([&] { auto it = vp->insert(vp->begin() + pos, f, l); ret = it - vp->begin(); }); }); exp = pos; break;
      case L_INSERT_IL: with_il(vals, [&](std::initializer_list<E> il) { window([&] { auto it = vp->insert(vp->begin() + pos, il); ret = it - vp->begin(); }); }); exp = pos; break;
      case L_RESIZE: window([&] { vp->resize(static_cast<SizeT>(arg)); }); break;
      case L_RESIZE_V: window([&] { vp->resize(static_cast<SizeT>(arg), *e); }); break;
      case L_ASSIGN_N: window([&] { vp->assign(static_cast<SizeT>(c), *e); }); break;
      case L_ASSIGN_RANGE: with_range<E>(kinds[kind], vals, [&](auto f, auto l) { window([&] { vp->assign(f, l); }); }); break;
      case L_ASSIGN_IL: with_il(vals, [&](std::initializer_list<E> il) { window([&] { vp->assign(il); }); }); break;
      case L_APPEND_RANGE: with_range<E>(kinds[kind], vals, [&](auto f, auto l) { window([&] { vp->append(f, l); }); }); break;
      case L_APPEND_N: window([&] { vp->append(static_cast<SizeT>(c)); }); break;
      case L_APPEND_NV: window([&] { vp->append(static_cast<SizeT>(c), *e); }); break;
      case L_APPEND_IL: with_il(vals, [&](std::initializer_list<E> il) { window([&] { vp->append(il); }); }); break;
      case L_RESERVE: window([&] { vp->reserve(static_cast<SizeT>(arg)); }); break;
      case L_CTOR_N: b.obj = raw_new<Vec>(); vp = b.obj; window([&] { new (vp) Vec(static_cast<SizeT>(c)); }); break;
      case L_CTOR_NV: b.obj = raw_new<Vec>(); vp = b.obj; window([&] { new (vp) Vec(static_cast<SizeT>(c), *e); }); break;
      case L_CTOR_RANGE: b.obj = raw_new<Vec>(); vp = b.obj; with_range<E>(kinds[kind], vals, [&](auto f, auto l) { window([&] { new (vp) Vec(f, l); }); }); break;
      case L_CTOR_IL: b.obj = raw_new<Vec>(); vp = b.obj; with_il(vals, [&](std::initializer_list<E> il) { window([&] { new (vp) Vec(il); }); }); break;
      case L_AT: window([&] { (void)vp->at(static_cast<SizeT>(size + c)); at_ok = true; }); break;
    }
    { MonScope mm; delete e; }
    if (is_ctor && threw) { raw_free(b.obj); b.obj = nullptr; vp = nullptr; }  // no object was created
    if (!fits) {
      ++n_throw_cells;
      const char *want = op == L_AT ? "out_of_range" : I::kFixed ? "out_of_range" : "overflow_error";
      if (!threw) violation("C08", "limit.no_exception", fmt("%s beyond the limit (result %ju > %ju) did not throw", limname(op), result, limit()));
      else if (threw_what.find(want) == std::string::npos) violation("C08", "limit.wrong_exception_type", fmt("%s threw %s, expected std::%s", limname(op), threw_what.c_str(), want));
      if (is_ctor) {
        // no object exists; nothing may be left behind (checked by cell_end)
        if (!threw && b.obj) { /* constructed although impossible: reported above */ }
      } else if (!g_cut) {
        Snap after = snap(*vp);
        MonScope mm;
        if (!after.sane) { /* reported */ }
        else {
          if (after.size != before.size) violation("C08", "limit.size_changed", fmt("size %ju -> %ju after the exception", before.size, after.size));
          if (after.cap != before.cap) violation("C08", "limit.capacity_changed", fmt("capacity %ju -> %ju after the exception", before.cap, after.cap));
          if (after.data != before.data) violation("C08", "limit.data_changed", "data() changed although the call failed");
          if (!same_vals(after.vals, before.vals)) violation("C08", "limit.contents_changed", fmt("contents %s -> %s after the exception", vals_str(before.vals).c_str(), vals_str(after.vals).c_str()));
          if (after.serials != before.serials) violation("C08", "limit.elements_replaced", "element objects were replaced although the call failed");
        }
        if (EI<E>::kTracked && g_live_lib != live_before) violation("C08,C02", "limit.element_leaked_or_destroyed", fmt("%ld live element objects before the failed call, %ld after", live_before, g_live_lib));
        if (g_blk_live != blk_before) violation("C08,C06", "limit.block_leaked_or_freed", fmt("%ld outstanding blocks before the failed call, %ld after", blk_before, g_blk_live));
      }
    } else {
      ++n_fit_cells;
      if (threw) violation("C08", "limit.spurious_exception", fmt("%s within the limit (result %ju <= %ju) threw %s", limname(op), result, limit(), threw_what.c_str()));
      else {
        // model side
        switch (op) {
          case L_PUSH_C: case L_PUSH_M: case L_EMPLACE_BACK: m.push_back(x); break;
          case L_EMPLACE: case L_INSERT_C: case L_INSERT_M: m.insert(m.begin() + pos, x); break;
          case L_INSERT_N: m.insert(m.begin() + pos, c, x); break;
          case L_INSERT_RANGE: case L_INSERT_IL: m.insert(m.begin() + pos, vals.begin(), vals.end()); break;
          case L_RESIZE: m.resize(arg, EI<E>::norm(Val(0, 0))); break;
          case L_RESIZE_V: m.resize(arg, x); break;
          case L_ASSIGN_N: case L_CTOR_NV: m.assign(c, x); break;
          case L_ASSIGN_RANGE: case L_ASSIGN_IL: case L_CTOR_RANGE: case L_CTOR_IL: m = vals; break;
          case L_APPEND_RANGE: case L_APPEND_IL: m.insert(m.end(), vals.begin(), vals.end()); break;
          case L_APPEND_N: m.insert(m.end(), c, EI<E>::norm(Val(0, 0))); break;
          case L_APPEND_NV: m.insert(m.end(), c, x); break;
          case L_CTOR_N: m.assign(c, EI<E>::norm(Val(0, 0))); break;
          default: break;
        }
        Snap after = snap(*vp);
        MonScope mm;
        if (after.sane && !same_vals(after.vals, m)) violation("C08,C01", "limit.result_differs", fmt("within the limit: result %s, std::vector gives %s", vals_str(after.vals).c_str(), vals_str(m).c_str()));
        if (ret != exp) violation("C08,C01", "limit.returned_position", fmt("returned position %ld, expected %ld", ret, exp));
        if (op == L_RESERVE && after.cap < arg) violation("C08,C07", "limit.reserve_capacity", "capacity() < n after reserve");
      }
    }
    if (b.obj && !g_cut && !canaries_ok(b.obj)) violation("C08", "limit.write_outside_storage", "bytes next to the container object were overwritten");
    // the container remains fully usable
    if (b.obj && !g_cut) followup(b);
    destroy(b);
    cell_end<E>("C08,C02");
    (void)at_ok;
  }

  void followup(Box<Vec> &b) {
    Vec &v = *b.obj;
    std::vector<Val> &m = b.model;
    { MonScope mm; g_cur_sig += "+followup"; }
    if (!m.empty()) { window([&] { v.pop_back(); }); m.pop_back(); }
    if (m.size() < limit()) { Val y = EI<E>::norm(Val(3, ++paycnt)); window([&] { v.emplace_back(y.key, y.pay); }); m.push_back(y); }
    if (m.size() < limit()) { Val y = EI<E>::norm(Val(4, ++paycnt)); window([&] { v.emplace(v.begin(), y.key, y.pay); }); m.insert(m.begin(), y); }
    if (threw) { violation("C08", "limit.unusable_after", "a follow-up operation threw"); return; }
    Snap after = snap(v);
    {
      MonScope mm;
      if (after.sane && !same_vals(after.vals, m)) violation("C08", "limit.unusable_after", fmt("follow-up operations give %s, expected %s", vals_str(after.vals).c_str(), vals_str(m).c_str()));
    }
    window([&] { v.clear(); });
    m.clear();
    MonScope mm;
    if (v.size() != 0) violation("C08", "limit.unusable_after", "clear() left elements");
  }
};

}  // namespace vf

int main(int argc, char **argv) {
  using namespace vf;
  Args a;
  a.parse(argc, argv);
  install_malloc_hook();
  g_elem_relocatable = EI<Elem>::kRelocatable;
  static LimitGrid<Vec> eng;
  eng.deep = a.has("--deep");
  long total = L_N;
  long to = a.to < total ? a.to : total;
  long h = a.from;
  for (; h < to; ++h) {
    eng.run_op(static_cast<int>(h), h);
    if (g_cut) break;
  }
  eng.counters["cells"] = eng.n_cells;
  eng.counters["cells_expected_to_throw"] = eng.n_throw_cells;
  eng.counters["cells_expected_to_fit"] = eng.n_fit_cells;
  eng.counters["cells_state_not_formable"] = eng.n_skipped;
  eng.write_summary(VF_CFG_NAME, a.seed, a.from, g_cut ? h + 1 : h, a.to, true);
  if (g_cut) _exit(3);
  return 0;
}
