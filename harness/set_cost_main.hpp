// C19: comparator-call budget of FlatSet lookups / insert position search / hinted insertion, and of inline SmallSet lookups.
// The including TU defines Elem, Cmp, VecT, VF_CFG_NAME.  "history" index = index into the list of set sizes.
#pragma once

#include <amc/flatset.hpp>
#include <amc/smallset.hpp>

#include "engine_base.hpp"
#include "mon/cmp.hpp"
#include "vec_common.hpp"

namespace vf {

inline unsigned ceil_log2(uint64_t x) {  // ceil(log2(x)) for x >= 1
  unsigned r = 0;
  uint64_t p = 1;
  while (p < x) { p <<= 1; ++r; }
  return r;
}

template <class E, class Cmp, class VecT>
struct CostEngine : EngineBase {
  typedef typename VecT::allocator_type Alloc;
  typedef amc::FlatSet<E, Cmp, Alloc, VecT> Set;
  Cmp cmp{kHarnessOrigin};
  uint64_t max_lookup = 0, max_hint = 0, max_small = 0, n_measured = 0;

  // construction from (key, payload): class types by their constructor, raw arithmetic keys by value
  template <class S, class E_ = E>
  static typename std::enable_if<!std::is_arithmetic<E_>::value, std::pair<typename S::iterator, bool> >::type emp(S &s, int k, unsigned p) { return s.emplace(k, p); }
  template <class S, class E_ = E>
  static typename std::enable_if<std::is_arithmetic<E_>::value, std::pair<typename S::iterator, bool> >::type emp(S &s, int k, unsigned) { return s.emplace(static_cast<E>(k)); }
  template <class S, class It, class E_ = E>
  static typename std::enable_if<!std::is_arithmetic<E_>::value, typename S::iterator>::type emph(S &s, It h, int k, unsigned p) { return s.emplace_hint(h, k, p); }
  template <class S, class It, class E_ = E>
  static typename std::enable_if<std::is_arithmetic<E_>::value, typename S::iterator>::type emph(S &s, It h, int k, unsigned) { return s.emplace_hint(h, static_cast<E>(k)); }
  static E *newE(int k, unsigned p) { return new E(Mk<E>::make(Val(k, p))); }
  // key of rank i among n: evenly spaced, or (skew) the same cluster with one far outlier at the top - a search that guesses the position from the
  // key values degenerates on it
  bool skew = false;
  int keyat(size_t i, size_t n) const { return skew && n >= 2 && i == n - 1 ? (1 << 30) : static_cast<int>(4 * (i + 1)); }
  int gapkey(size_t r, size_t n) const { return skew && n >= 2 && r == n ? (1 << 30) + 2 : static_cast<int>(4 * r + 2); }

  template <class F>
  uint64_t cost(F &&f) {
    uint64_t c0 = g_cmp_calls;
    window(f);
    return g_cmp_calls - c0;
  }
  void judge(const char *what, uint64_t calls, uint64_t bound, size_t n, int key) {
    ++n_measured;
    if (calls > bound) violation("C19", "cost.comparator_calls_exceed_bound", fmt("%s on a set of %zu elements (key %d) used %ju comparator calls, bound is %ju", what, n, key, static_cast<uintmax_t>(calls), static_cast<uintmax_t>(bound)));
  }

  // key of rank r (present keys are even when ordered ascending); the comparator may order descending or by classes of two
  void run_size(size_t n, long hidx) {
    begin_history(0, hidx, 0xC19);
    skew = false;
    sweep(n);
#if VF_MAX_N >= 100000
    if (n >= 2 && !g_cut) { skew = true; sweep(n); skew = false; }  // (keys of at least 32 bits only)
#endif
    if (!g_cut) end_history_ok();
  }
  void sweep(size_t n) {
    Set *s;
    { MonScope m; s = static_cast<Set *>(malloc(sizeof(Set))); }
    window([&] { new (s) Set(cmp); });
    // keys 4,8,12,...: distinct also under the coarse comparator, with gaps that are distinct classes too
    bool asc;
    { MonScope m; asc = cmp(Val(4, 0), Val(8, 0)); }
    for (size_t i = 0; i < n; ++i) {
      int k = keyat(i, n);
      if (asc) window([&] { emph(*s, s->end(), k, static_cast<unsigned>(i)); });
      else window([&] { emph(*s, s->begin(), k, static_cast<unsigned>(i)); });
    }
    if (static_cast<size_t>(s->size()) != n) harness_fail("cost engine: set construction failed");
    const uint64_t bound = 2 * ceil_log2(n + 1) + 4;
    std::vector<size_t> ranks;
    if (n <= 64) for (size_t r = 0; r <= n; ++r) ranks.push_back(r);
    else for (int q = 0; q < 200; ++q) ranks.push_back(q == 0 ? 0 : q == 1 ? n : rng.below(static_cast<uint32_t>(n + 1)));
    set_op(skew ? "lookups+insert+hint(skewed keys)" : "lookups+insert+hint", n == 0 ? "n=0" : n <= 16 ? "n<=16" : n <= 64 ? "n<=64" : "n>64", "-", fmt("n=%zu bound=%ju", n, static_cast<uintmax_t>(bound)));
    const Set &cs = *s;
    for (size_t ri = 0; ri < ranks.size() && !g_cut; ++ri) {
      size_t r = ranks[ri];
      for (int present = 0; present < 2; ++present) {
        if (present && r >= n) continue;
        int key = present ? keyat(r, n) : gapkey(r, n);  // absent keys fall in the gap below rank r
        E *e;
        { MonScope m; e = newE(key, 777); }
        uint64_t c;
        c = cost([&] { (void)cs.find(*e); }); judge("find", c, bound, n, key); if (c > max_lookup) max_lookup = c;
        c = cost([&] { (void)cs.contains(*e); }); judge("contains", c, bound, n, key);
        c = cost([&] { (void)cs.count(*e); }); judge("count", c, bound, n, key);
        c = cost([&] { (void)cs.lower_bound(*e); }); judge("lower_bound", c, bound, n, key);
        c = cost([&] { (void)cs.upper_bound(*e); }); judge("upper_bound", c, bound, n, key);
        c = cost([&] { (void)cs.equal_range(*e); }); judge("equal_range", c, bound, n, key); if (c > max_lookup) max_lookup = c;
        if (n <= 4096 || ri < 20) {
          if (!present) {
            // position search of insert / emplace, then erase(key) restores the set
            bool ins = false;
            c = cost([&] { ins = s->insert(*e).second; }); judge("insert", c, bound, n, key);
            c = cost([&] { (void)s->erase(*e); }); judge("erase(key)", c, 2 * ceil_log2(n + 2) + 4, n + 1, key);
            c = cost([&] { (void)emp(*s, key, 778u); }); judge("emplace", c, bound, n, key);
            c = cost([&] { (void)s->erase(*e); });
            // correct hint = lower_bound
            size_t lb = 0;
            { MonScope m; lb = static_cast<size_t>(cs.lower_bound(*e) - cs.begin()); }
            c = cost([&] { (void)s->insert(s->begin() + lb, *e); }); judge("insert(correct hint)", c, 6, n, key); if (c > max_hint) max_hint = c;
            c = cost([&] { (void)s->erase(*e); });
            c = cost([&] { (void)emph(*s, s->begin() + lb, key, 779u); }); judge("emplace_hint(correct hint)", c, 6, n, key); if (c > max_hint) max_hint = c;
            c = cost([&] { (void)s->erase(*e); });
            // extract / re-insert idiom: insert(hint, node) with the correct hint
            {
              bool ins2 = false;
              c = cost([&] { ins2 = s->insert(*e).second; });
              typename Set::node_type nh;
              c = cost([&] { nh = s->extract(*e); });
              judge("extract(key)", c, 2 * ceil_log2(n + 2) + 4, n + 1, key);
              size_t lb2 = 0;
              { MonScope m; lb2 = static_cast<size_t>(cs.lower_bound(*e) - cs.begin()); }
              c = cost([&] { (void)s->insert(s->begin() + lb2, std::move(nh)); });
              judge("insert(correct hint, node)", c, 6, n, key);
              if (c > max_hint) max_hint = c;
              c = cost([&] { (void)s->erase(*e); });
            }
            if (static_cast<size_t>(cs.size()) != n) violation("C19", "cost.harness_restore", "set not restored");
          } else {
            c = cost([&] { (void)s->insert(*e); }); judge("insert(present)", c, bound, n, key);
            size_t at = 0;
            { MonScope m; at = static_cast<size_t>(cs.find(*e) - cs.begin()); }
            c = cost([&] { (void)s->insert(s->begin() + at, *e); }); judge("insert(hint at equivalent element)", c, 6, n, key); if (c > max_hint) max_hint = c;
            c = cost([&] { (void)s->insert(s->begin() + at + 1, *e); }); judge("insert(hint just after equivalent element)", c, 6, n, key); if (c > max_hint) max_hint = c;
          }
        }
        MonScope m;
        delete e;
      }
    }
    if (!skew) hetero_costs(cs, n, bound);
    window([&] { s->~Set(); });
    MonScope m;
    free(s);
  }

  // heterogeneous keys under a transparent comparator: an int key, and keys equivalent to runs of 2, 16 and 256 consecutive elements
  // (the bound of the property does not depend on how many elements a key is equivalent to)
  template <class C = Cmp>
  typename std::enable_if<CmpTransparent<C>::value>::type hetero_costs(const Set &cs, size_t n, uint64_t bound) {
    static const int shifts[] = {3, 6, 10};  // keys are 4, 8, 12, ..: runs of 2, 16, 256 elements
    for (size_t r = 0; r <= n && !g_cut; r += (n <= 64 ? 1 : n / 50 + 1)) {
      int key = static_cast<int>(4 * (r + 1));
      uint64_t c;
      c = cost([&] { (void)cs.find(key); }); judge("find(int key)", c, bound, n, key);
      c = cost([&] { (void)cs.count(key); }); judge("count(int key)", c, bound, n, key);
      c = cost([&] { (void)cs.contains(key); }); judge("contains(int key)", c, bound, n, key);
      c = cost([&] { (void)cs.lower_bound(key); }); judge("lower_bound(int key)", c, bound, n, key);
      c = cost([&] { (void)cs.upper_bound(key); }); judge("upper_bound(int key)", c, bound, n, key);
      for (int sh : shifts) {
        HalfKey hk(key >> sh, sh);
        c = cost([&] { (void)cs.find(hk); }); judge("find(run key)", c, bound, n, key);
        c = cost([&] { (void)cs.count(hk); }); judge("count(run key)", c, bound, n, key);
        c = cost([&] { (void)cs.contains(hk); }); judge("contains(run key)", c, bound, n, key);
        c = cost([&] { (void)cs.lower_bound(hk); }); judge("lower_bound(run key)", c, bound, n, key);
        c = cost([&] { (void)cs.upper_bound(hk); }); judge("upper_bound(run key)", c, bound, n, key);
      }
    }
  }
  template <class C = Cmp>
  typename std::enable_if<!CmpTransparent<C>::value>::type hetero_costs(const Set &, size_t, uint64_t) {}

  template <uintmax_t N>
  void run_small() {
    typedef amc::SmallSet<E, N, Cmp, std::allocator<E> > SS;
    for (size_t fill = 0; fill <= N && !g_cut; ++fill) {
      SS *s;
      { MonScope m; s = static_cast<SS *>(malloc(sizeof(SS))); }
      window([&] { new (s) SS(cmp); });
      for (size_t i = 0; i < fill; ++i) { int k = static_cast<int>(4 * (i + 1)); window([&] { emp(*s, k, 0u); }); }
      set_op("smallset-lookup", fmt("N=%ju", static_cast<uintmax_t>(N)), fmt("fill=%zu", fill), "");
      const SS &cs = *s;
      for (size_t r = 0; r <= fill; ++r)
        for (int present = 0; present < 2; ++present) {
          if (present && r >= fill) continue;
          int key = present ? static_cast<int>(4 * (r + 1)) : static_cast<int>(4 * r + 2);
          E *e;
          { MonScope m; e = newE(key, 1); }
          uint64_t c;
          c = cost([&] { (void)cs.find(*e); }); if (c > max_small) max_small = c; ++n_measured;
          if (c > 2 * N + 2) violation("C19", "cost.smallset_lookup", fmt("find on an inline SmallSet<N=%ju> with %zu elements used %ju comparator calls (bound 2N+2)", static_cast<uintmax_t>(N), fill, static_cast<uintmax_t>(c)));
          c = cost([&] { (void)cs.contains(*e); }); ++n_measured;
          if (c > 2 * N + 2) violation("C19", "cost.smallset_lookup", fmt("contains on an inline SmallSet<N=%ju> with %zu elements used %ju comparator calls", static_cast<uintmax_t>(N), fill, static_cast<uintmax_t>(c)));
          c = cost([&] { (void)cs.count(*e); }); ++n_measured;
          if (c > 2 * N + 2) violation("C19", "cost.smallset_lookup", fmt("count on an inline SmallSet<N=%ju> with %zu elements used %ju comparator calls", static_cast<uintmax_t>(N), fill, static_cast<uintmax_t>(c)));
          MonScope m;
          delete e;
        }
      window([&] { s->~SS(); });
      MonScope m;
      free(s);
    }
  }
  // SmallSet over a FlatSet in its large state: every call is forwarded to the FlatSet, so the budgets of the FlatSet apply unchanged
  // (lookups and position searches logarithmic, a correct hint - also with a node - search-free)
  // (a SmallSet over a FlatSet over std::vector does not compile at all - FlatSet::extract(const_iterator) needs pointer iterators - so
  //  those configurations have nothing to measure here)
  template <uintmax_t N, class S_ = Set>
  typename std::enable_if<!std::is_pointer<typename S_::const_iterator>::value>::type run_small_over_flat(size_t) {}
  template <uintmax_t N, class S_ = Set>
  typename std::enable_if<std::is_pointer<typename S_::const_iterator>::value>::type run_small_over_flat(size_t n) {
    typedef amc::SmallSet<E, N, Cmp, Alloc, Set> SS;
    if (n <= N || n + 2 > static_cast<size_t>(VF_MAX_N)) return;
    SS *s;
    { MonScope m; s = static_cast<SS *>(malloc(sizeof(SS))); }
    window([&] { new (s) SS(cmp); });
    for (size_t i = 0; i < n; ++i) { int k = static_cast<int>(4 * (i + 1)); window([&] { emp(*s, k, static_cast<unsigned>(i)); }); }
    if (static_cast<size_t>(s->size()) != n) harness_fail("cost engine: SmallSet construction failed");
    const uint64_t bound = 2 * ceil_log2(n + 1) + 4, bound1 = 2 * ceil_log2(n + 2) + 4;
    set_op("smallset-over-flatset(large)", fmt("N=%ju", static_cast<uintmax_t>(N)), n <= 16 ? "n<=16" : n <= 64 ? "n<=64" : "n>64", fmt("n=%zu bound=%ju", n, static_cast<uintmax_t>(bound)));
    const SS &cs = *s;
    for (size_t r = 0; r <= n && !g_cut; r += (n <= 40 ? 1 : n / 23 + 1)) {
      for (int present = 0; present < 2; ++present) {
        if (present && r >= n) continue;
        int key = present ? static_cast<int>(4 * (r + 1)) : static_cast<int>(4 * r + 2);
        E *e;
        { MonScope m; e = newE(key, 777); }
        auto hint_of = [&]() { MonScope m; auto it = cs.begin(); while (it != cs.end() && cmp(*it, *e)) ++it; return it; };
        uint64_t c;
        c = cost([&] { (void)cs.find(*e); }); judge("SmallSet(large, FlatSet)::find", c, bound, n, key); if (c > max_lookup) max_lookup = c;
        c = cost([&] { (void)cs.contains(*e); }); judge("SmallSet(large, FlatSet)::contains", c, bound, n, key);
        c = cost([&] { (void)cs.count(*e); }); judge("SmallSet(large, FlatSet)::count", c, bound, n, key);
        if (!present) {
          c = cost([&] { (void)s->insert(*e); }); judge("SmallSet(large, FlatSet)::insert", c, bound, n, key);
          c = cost([&] { (void)s->erase(*e); }); judge("SmallSet(large, FlatSet)::erase(key)", c, bound1, n + 1, key);
          c = cost([&] { (void)emp(*s, key, 778u); }); judge("SmallSet(large, FlatSet)::emplace", c, bound, n, key);
          c = cost([&] { (void)s->erase(*e); });
          { auto h = hint_of(); c = cost([&] { (void)s->insert(h, *e); }); }
          judge("SmallSet(large, FlatSet)::insert(correct hint)", c, 6, n, key); if (c > max_hint) max_hint = c;
          c = cost([&] { (void)s->erase(*e); });
          { auto h = hint_of(); c = cost([&] { (void)emph(*s, h, key, 779u); }); }
          judge("SmallSet(large, FlatSet)::emplace_hint(correct hint)", c, 6, n, key); if (c > max_hint) max_hint = c;
          typename SS::node_type nh;
          c = cost([&] { nh = s->extract(*e); }); judge("SmallSet(large, FlatSet)::extract(key)", c, bound1, n + 1, key);
          { auto h = hint_of(); c = cost([&] { (void)s->insert(h, std::move(nh)); }); }
          judge("SmallSet(large, FlatSet)::insert(correct hint, node)", c, 6, n, key); if (c > max_hint) max_hint = c;
          // (extract(position) does not compile for a FlatSet-backed SmallSet, see DESIGN.md)
          c = cost([&] { nh = s->extract(*e); });
          c = cost([&] { (void)s->insert(std::move(nh)); }); judge("SmallSet(large, FlatSet)::insert(node)", c, bound, n, key);
          c = cost([&] { (void)s->erase(*e); });
          if (static_cast<size_t>(cs.size()) != n) violation("C19", "cost.harness_restore", "SmallSet not restored");
        } else {
          c = cost([&] { (void)s->insert(*e); }); judge("SmallSet(large, FlatSet)::insert(present)", c, bound, n, key);
          { auto h = hint_of(); c = cost([&] { (void)s->insert(h, *e); }); }
          judge("SmallSet(large, FlatSet)::insert(hint at equivalent element)", c, 6, n, key); if (c > max_hint) max_hint = c;
        }
        MonScope m;
        delete e;
      }
    }
    window([&] { s->~SS(); });
    MonScope m;
    free(s);
  }
  void run_smallsets_large(long hidx) {
    begin_history(0, hidx, 0xC19);
    static const size_t ns[] = {2, 3, 5, 6, 9, 10, 17, 33, 40, 62, 90, 300, 1500};
    for (size_t n : ns) {
      if (g_cut) break;
      run_small_over_flat<1>(n); run_small_over_flat<4>(n); run_small_over_flat<8>(n);
    }
    if (!g_cut) end_history_ok();
  }
  void run_smallsets(long hidx) {
    begin_history(0, hidx, 0xC19);
    run_small<1>(); run_small<2>(); run_small<3>(); run_small<4>(); run_small<5>(); run_small<6>(); run_small<7>(); run_small<8>();
    if (!g_cut) end_history_ok();
  }
};

}  // namespace vf

int main(int argc, char **argv) {
  using namespace vf;
  Args a;
  a.parse(argc, argv);
  install_malloc_hook();
  g_selfswap_window = true;
  static CostEngine<Elem, Cmp, VecT> eng;
  std::vector<size_t> sizes;
  for (size_t n = 0; n <= 64; ++n) sizes.push_back(n);
  size_t big[] = {100, 500, 1000, 4096};
  for (size_t b : big) sizes.push_back(b);
  if (a.has("--big")) sizes.push_back(20000);
  long total = static_cast<long>(sizes.size()) + 2;  // last two indices = inline SmallSets, SmallSets over a FlatSet in their large state
  long to = a.to < total ? a.to : total;
  long h = a.from;
  for (; h < to; ++h) {
    if (h < static_cast<long>(sizes.size())) {
      if (sizes[h] > static_cast<size_t>(VF_MAX_N)) { continue; }
      eng.run_size(sizes[h], h);
    } else if (h == static_cast<long>(sizes.size())) eng.run_smallsets(h);
    else eng.run_smallsets_large(h);
    if (g_cut) break;
  }
  eng.counters["measured_calls"] = eng.n_measured;
  eng.counters["max_lookup_comparisons"] = eng.max_lookup;
  eng.counters["max_correct_hint_comparisons"] = eng.max_hint;
  eng.counters["max_inline_smallset_comparisons"] = eng.max_small;
  eng.write_summary(VF_CFG_NAME, a.seed, a.from, g_cut ? h + 1 : h, a.to, false);
  if (g_cut) _exit(3);
  return 0;
}
