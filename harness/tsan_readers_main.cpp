// C20: concurrent const access to one container is race-free (ThreadSanitizer).
// Several threads run only const operations on one shared object and mutate only their own private objects.
// "history" index = (container type, state) combination.  --control runs a deliberately racy object (positive control).
#include <amc/fixedcapacityvector.hpp>
#include <amc/flatset.hpp>
#include <amc/smallset.hpp>
#include <amc/smallvector.hpp>
#include <amc/vector.hpp>

#include <atomic>
#include <cstdio>
#include <cstdlib>
#include <cstring>
#include <stdexcept>
#include <string>
#include <thread>
#include <vector>

namespace ts {

struct TCs {  // trivially copyable
  int k;
  short p;
  TCs() : k(0), p(0) {}
  TCs(int v) : k(v), p(static_cast<short>(v)) {}
  bool operator==(const TCs &o) const { return k == o.k; }
  bool operator<(const TCs &o) const { return k < o.k; }
};
struct TRs {  // declared trivially relocatable, not trivially copyable; no monitor state at all (the monitor must not be the race)
  int k;
  int pad;
  TRs() : k(0), pad(0) {}
  TRs(int v) : k(v), pad(~v) {}
  TRs(const TRs &o) : k(o.k), pad(o.pad) {}
  TRs &operator=(const TRs &o) { k = o.k; pad = o.pad; return *this; }
  bool operator==(const TRs &o) const { return k == o.k; }
  bool operator<(const TRs &o) const { return k < o.k; }
  typedef std::true_type trivially_relocatable;
};
inline int keyof(int v) { return v; }
inline int keyof(const TCs &v) { return v.k; }
inline int keyof(const TRs &v) { return v.k; }

// relaxed operations only: a sequentially consistent clock would synchronise the threads and hide races from ThreadSanitizer
static std::atomic<long> g_clock(0);
static std::atomic<int> g_ready(0);
static std::atomic<bool> g_go(false);
static std::atomic<long> g_sink(0);
static std::atomic<long> g_reader_ops(0);

struct Burst { long start, end; int thread; };

template <class V>
long read_vector(const V &s, const V &mine, unsigned r) {
  long acc = 0;
  typedef typename V::size_type SizeT;
  acc += static_cast<long>(s.size()) + s.empty() + static_cast<long>(s.capacity()) + (s.data() != nullptr);
  for (typename V::const_iterator it = s.begin(); it != s.end(); ++it) acc += keyof(*it);
  for (typename V::const_reverse_iterator it = s.rbegin(); it != s.rend(); ++it) acc ^= keyof(*it);
  if (!s.empty()) {
    SizeT i = static_cast<SizeT>(r % s.size());
    acc += keyof(s[i]) + keyof(s.at(i)) + keyof(s.front()) + keyof(s.back());
  }
  acc += (s == mine) + (s != mine) + (s < mine) + (s >= mine) + (s <= mine) + (s > mine);
  // element access that fails is const access too: at() beyond the size, on the shared object and on the private one
  if (r % 5 == 0) {
    try { acc += keyof(s.at(static_cast<SizeT>(s.size()))); } catch (const std::out_of_range &e) { acc += static_cast<long>(strlen(e.what())); }
    try { acc += keyof(mine.at(static_cast<SizeT>(mine.size()))); } catch (const std::out_of_range &e) { acc += static_cast<long>(strlen(e.what())); }
  }
  acc += static_cast<long>(s.max_size() != 0) + (s.cbegin() == s.cend()) + (s.crbegin() == s.crend());
  (void)s.get_allocator();
  V copy(s);  // copy-construction from the shared object
  acc += static_cast<long>(copy.size());
  return acc;
}
template <class V>
void mutate_vector(V &mine, unsigned r, unsigned maxlen) {
  if (mine.size() < maxlen && r % 3 != 0) mine.emplace_back(static_cast<int>(r % 50));
  else if (!mine.empty() && r % 3 == 0) mine.erase(mine.begin() + (r % mine.size()));
  if (r % 17 == 0) mine.clear();
  if (r % 23 == 0 && mine.size() + 2 < maxlen) mine.insert(mine.begin(), typename V::value_type(static_cast<int>(r % 7)));
}
template <class S>
long read_set(const S &s, const S &mine, unsigned r) {
  long acc = 0;
  typedef typename S::value_type T;
  acc += static_cast<long>(s.size()) + s.empty();
  for (typename S::const_iterator it = s.begin(); it != s.end(); ++it) acc += keyof(*it);
  T k(static_cast<int>(r % (s.size() > 40 ? 1009 : 40)));
  acc += (s.find(k) != s.end()) + s.contains(k) + static_cast<long>(s.count(k));
  acc += (s == mine) + (s != mine) + (s < mine) + (s >= mine) + (s <= mine) + (s > mine);
  for (typename S::const_reverse_iterator it = s.rbegin(); it != s.rend(); ++it) acc ^= keyof(*it);
  acc += static_cast<long>(s.max_size() != 0) + (s.cbegin() == s.cend()) + s.key_comp()(k, k) + s.value_comp()(k, k);
  (void)s.get_allocator();
  S copy(s);
  acc += static_cast<long>(copy.size());
  return acc;
}
template <class S>
long read_flat_extra(const S &s, unsigned r) {
  typedef typename S::value_type T;
  T k(static_cast<int>(r % (s.size() > 40 ? 1009 : 40)));
  long acc = (s.lower_bound(k) - s.begin()) + (s.upper_bound(k) - s.begin());
  std::pair<typename S::const_iterator, typename S::const_iterator> er = s.equal_range(k);
  acc += er.second - er.first;
  if (r % 5 == 0) {
    typedef typename S::size_type SizeT;
    try { acc += keyof(s.at(static_cast<SizeT>(s.size()))); } catch (const std::out_of_range &e) { acc += static_cast<long>(strlen(e.what())); }
  }
  if (!s.empty()) acc += keyof(s.front()) + keyof(s.back()) + keyof(s[static_cast<typename S::size_type>(r % s.size())]) + static_cast<long>(s.capacity());
  return acc;
}
template <class S>
void mutate_set(S &mine, unsigned r, unsigned maxlen) {
  typedef typename S::value_type T;
  if (mine.size() < maxlen && r % 3 != 0) mine.insert(T(static_cast<int>(r % 40)));
  else { T k(static_cast<int>(r % 40)); mine.erase(k); }
  if (r % 29 == 0) mine.clear();
}

// A comparator with a const and a non-const call operator, the latter keeping (unsynchronised) statistics: the standard containers call the
// const one from their const members, so concurrent const lookups on one set never write to the comparator stored inside it.
template <class T>
struct DualLess {
  long mutable_calls;
  DualLess() : mutable_calls(0) {}
  bool operator()(const T &a, const T &b) const { return a < b; }
  bool operator()(const T &a, const T &b) { ++mutable_calls; return a < b; }
};

// positive control: a container-like object with an unsynchronised mutable cache
struct RacyCache {
  std::vector<int> v;
  mutable int last_key;
  mutable bool last_found;
  RacyCache() : last_key(-1), last_found(false) {}
  bool contains(int k) const {
    if (last_key == k) return last_found;
    bool f = false;
    for (size_t i = 0; i < v.size(); ++i) f |= v[i] == k;
    last_key = k;
    last_found = f;
    return f;
  }
};

template <class F>
void run_threads(int nthreads, int iters, unsigned seed, std::vector<Burst> &bursts, F body) {
  g_ready = 0;
  g_go = false;
  std::vector<std::vector<Burst> > per(nthreads);
  std::vector<std::thread> th;
  for (int t = 0; t < nthreads; ++t) {
    th.push_back(std::thread([&, t]() {
      unsigned r = seed * 2654435761u + static_cast<unsigned>(t) * 40503u;
      g_ready.fetch_add(1);
      while (!g_go.load(std::memory_order_acquire)) {}
      // seed-derived start offset
      for (volatile unsigned spin = 0; spin < (r % 2000); ++spin) {}
      long acc = 0;
      for (int i = 0; i < iters; i += 50) {
        Burst b;
        b.thread = t;
        b.start = g_clock.fetch_add(1, std::memory_order_relaxed);
        for (int j = 0; j < 50; ++j) {
          r = r * 1664525u + 1013904223u;
          acc += body(t, r >> 8);
        }
        b.end = g_clock.fetch_add(1, std::memory_order_relaxed);
        per[t].push_back(b);
      }
      g_sink.fetch_add(acc, std::memory_order_relaxed);
      g_reader_ops.fetch_add(iters, std::memory_order_relaxed);
    }));
  }
  while (g_ready.load() < nthreads) {}
  g_go.store(true, std::memory_order_release);
  for (size_t t = 0; t < th.size(); ++t) th[t].join();
  for (int t = 0; t < nthreads; ++t) bursts.insert(bursts.end(), per[t].begin(), per[t].end());
}

static long count_overlaps(const std::vector<Burst> &b) {
  long n = 0;
  for (size_t i = 0; i < b.size(); ++i)
    for (size_t j = i + 1; j < b.size() && j < i + 400; ++j)
      if (b[i].thread != b[j].thread && b[i].start < b[j].end && b[j].start < b[i].end) ++n;
  return n;
}

template <class V>
long vec_case(int fill, unsigned maxlen, int nthreads, int iters, unsigned seed, long &overlaps) {
  V shared;
  for (int i = 0; i < fill; ++i) shared.emplace_back((i * 17 + 5) % 37);
  std::vector<V> priv(nthreads);
  const V &cs = shared;
  std::vector<Burst> bursts;
  run_threads(nthreads, iters, seed, bursts, [&](int t, unsigned r) -> long {
    long a = read_vector(cs, priv[t], r);
    mutate_vector(priv[t], r, maxlen);
    return a;
  });
  overlaps += count_overlaps(bursts);
  return static_cast<long>(bursts.size());
}
template <class S, bool FLAT>
long set_case(int fill, unsigned maxlen, int nthreads, int iters, unsigned seed, long &overlaps) {
  S shared;
  typedef typename S::value_type T;
  for (int i = 0; i < fill; ++i) shared.insert(T((i * 17 + 5) % (fill > 37 ? 1009 : 37)));  // neither ascending nor descending: the inline state keeps insertion order
  std::vector<S> priv(nthreads);
  const S &cs = shared;
  std::vector<Burst> bursts;
  run_threads(nthreads, iters, seed, bursts, [&](int t, unsigned r) -> long {
    long a = read_set(cs, priv[t], r);
    mutate_set(priv[t], r, maxlen);
    return a;
  });
  overlaps += count_overlaps(bursts);
  return static_cast<long>(bursts.size());
}
template <class S>
long flat_case(int fill, unsigned maxlen, int nthreads, int iters, unsigned seed, long &overlaps) {
  S shared;
  typedef typename S::value_type T;
  for (int i = 0; i < fill; ++i) shared.insert(T((i * 17 + 5) % (fill > 37 ? 1009 : 37)));  // neither ascending nor descending: the inline state keeps insertion order
  std::vector<S> priv(nthreads);
  const S &cs = shared;
  std::vector<Burst> bursts;
  run_threads(nthreads, iters, seed, bursts, [&](int t, unsigned r) -> long {
    long a = read_set(cs, priv[t], r) + read_flat_extra(cs, r);
    mutate_set(priv[t], r, maxlen);
    return a;
  });
  overlaps += count_overlaps(bursts);
  return static_cast<long>(bursts.size());
}

static const char *kCases[] = {
    "vector<int>/empty", "vector<int>/heap", "vector<TRs>/heap", "SmallVector<TCs,4>/inline", "SmallVector<TCs,4>/heap", "SmallVector<TRs,3>/inline-full",
    "FixedCapacityVector<int,8>/partial", "FixedCapacityVector<TRs,8>/full", "FlatSet<int>/heap", "FlatSet<TCs,SmallVector<4>>/inline", "FlatSet<TRs>/empty",
    "SmallSet<int,4>/inline", "SmallSet<int,4>/large", "SmallSet<TCs,4,FlatSet>/inline", "SmallSet<TCs,4,FlatSet>/large", "SmallSet<TRs,3>/empty", "FlatSet<int>/200", "vector<TCs>/500", "SmallSet<int,4>/large-150", "FlatSet<TRs,SmallVector<8>>/100",
    "FlatSet<int,DualLess>/heap", "FlatSet<int,DualLess>/200", "SmallSet<int,4,DualLess>/large", "SmallSet<TCs,4,DualLess,FlatSet>/inline", "SmallSet<TCs,4,DualLess,FlatSet>/large",
    "vector<int>/40000 (copies of 160 KB: the large-block path of the stock allocator)"};
static const int kNCases = 26;

long run_case(int c, int nthreads, int iters, unsigned seed, long &ov) {
  typedef amc::FlatSet<TCs, std::less<TCs>, amc::allocator<TCs>, amc::SmallVector<TCs, 4> > FSsv;
  typedef amc::SmallSet<TCs, 4, std::less<TCs>, amc::allocator<TCs>, amc::FlatSet<TCs, std::less<TCs>, amc::allocator<TCs> > > SSf;
  typedef amc::SmallSet<TCs, 4, DualLess<TCs>, amc::allocator<TCs>, amc::FlatSet<TCs, DualLess<TCs>, amc::allocator<TCs> > > SSfd;
  switch (c) {
    case 25: return vec_case<amc::vector<int> >(40000, 30, nthreads, iters / 40 + 2, seed, ov);
    case 20: return flat_case<amc::FlatSet<int, DualLess<int> > >(15, 30, nthreads, iters, seed, ov);
    case 21: return flat_case<amc::FlatSet<int, DualLess<int> > >(200, 30, nthreads, iters, seed, ov);
    case 22: return set_case<amc::SmallSet<int, 4, DualLess<int> >, false>(12, 30, nthreads, iters, seed, ov);
    case 23: return set_case<SSfd, true>(4, 30, nthreads, iters, seed, ov);
    case 24: return set_case<SSfd, true>(10, 30, nthreads, iters, seed, ov);
    case 0: return vec_case<amc::vector<int> >(0, 30, nthreads, iters, seed, ov);
    case 1: return vec_case<amc::vector<int> >(12, 30, nthreads, iters, seed, ov);
    case 2: return vec_case<amc::vector<TRs> >(9, 30, nthreads, iters, seed, ov);
    case 3: return vec_case<amc::SmallVector<TCs, 4> >(3, 30, nthreads, iters, seed, ov);
    case 4: return vec_case<amc::SmallVector<TCs, 4> >(11, 30, nthreads, iters, seed, ov);
    case 5: return vec_case<amc::SmallVector<TRs, 3> >(3, 30, nthreads, iters, seed, ov);
    case 6: return vec_case<amc::FixedCapacityVector<int, 8> >(5, 8, nthreads, iters, seed, ov);
    case 7: return vec_case<amc::FixedCapacityVector<TRs, 8> >(8, 8, nthreads, iters, seed, ov);
    case 8: return flat_case<amc::FlatSet<int> >(15, 30, nthreads, iters, seed, ov);
    case 9: return flat_case<FSsv>(3, 30, nthreads, iters, seed, ov);
    case 10: return flat_case<amc::FlatSet<TRs> >(0, 30, nthreads, iters, seed, ov);
    case 11: return set_case<amc::SmallSet<int, 4>, false>(3, 30, nthreads, iters, seed, ov);
    case 12: return set_case<amc::SmallSet<int, 4>, false>(12, 30, nthreads, iters, seed, ov);
    case 13: return set_case<SSf, true>(4, 30, nthreads, iters, seed, ov);
    case 14: return set_case<SSf, true>(10, 30, nthreads, iters, seed, ov);
    case 15: return set_case<amc::SmallSet<TRs, 3>, false>(0, 30, nthreads, iters, seed, ov);
    case 16: return flat_case<amc::FlatSet<int> >(200, 30, nthreads, iters, seed, ov);
    case 17: return vec_case<amc::vector<TCs> >(500, 30, nthreads, iters / 4, seed, ov);
    case 18: return set_case<amc::SmallSet<int, 4>, false>(150, 30, nthreads, iters, seed, ov);
    default: return flat_case<amc::FlatSet<TRs, std::less<TRs>, amc::allocator<TRs>, amc::SmallVector<TRs, 8> > >(100, 30, nthreads, iters, seed, ov);
  }
}

}  // namespace ts

int main(int argc, char **argv) {
  using namespace ts;
  long from = 0, to = kNCases;
  int iters = 2000, reps = 3;
  unsigned seed = 1;
  const char *out = nullptr;
  bool control = false;
  for (int i = 1; i < argc; ++i) {
    std::string a = argv[i];
    if (a == "--from") from = atol(argv[++i]);
    else if (a == "--to") to = atol(argv[++i]);
    else if (a == "--iters") iters = atoi(argv[++i]);
    else if (a == "--reps") reps = atoi(argv[++i]);
    else if (a == "--seed") seed = static_cast<unsigned>(strtoul(argv[++i], nullptr, 10));
    else if (a == "--out") out = argv[++i];
    else if (a == "--ring") ++i;
    else if (a == "--control") control = true;
  }
  if (control) {
    RacyCache rc;
    for (int i = 0; i < 20; ++i) rc.v.push_back(i);
    std::vector<Burst> bursts;
    run_threads(4, 2000, seed, bursts, [&](int, unsigned r) -> long { return rc.contains(static_cast<int>(r % 25)); });
    printf("control done %ld\n", g_sink.load());
    return 0;
  }
  if (to > kNCases) to = kNCases;
  FILE *f = out ? fopen(out, "a") : stdout;
  static const int threads[] = {2, 4, 8, 16};
  for (long c = from; c < to; ++c) {
    long bursts = 0, ov = 0;
    for (int ti = 0; ti < 4; ++ti)
      for (int rep = 0; rep < reps; ++rep) bursts += run_case(static_cast<int>(c), threads[ti], iters, seed * 131u + static_cast<unsigned>(rep * 17 + ti), ov);
    fprintf(f, "{\"t\":\"case\",\"case\":\"%s\",\"idx\":%ld,\"bursts\":%ld,\"overlapping_burst_pairs\":%ld,\"reader_ops\":%ld}\n", kCases[c], c, bursts, ov, g_reader_ops.load());
    fflush(f);
  }
  if (out) fclose(f);
  return 0;
}
