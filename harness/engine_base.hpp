// Shared skeleton of the history/grid engines: monitored window, operation signature bookkeeping, summary record.
#pragma once

#include <map>
#include <stdexcept>
#include <string>
#include <typeinfo>
#include <vector>

#include "mon/alloc.hpp"
#include "mon/core.hpp"
#include "mon/elem.hpp"

namespace vf {

struct EngineBase {
  Rng rng;
  uint64_t n_calls = 0, n_hist = 0, n_cut = 0;
  std::map<std::string, uint64_t> cells;
  std::map<std::string, uint64_t> counters;
  std::vector<std::string> sample_hist;
  std::string cur_hist_text;
  uint64_t req0 = 0;
  bool threw = false;
  bool threw_fault = false;  // the exception was an injected fault
  std::string threw_what;
  bool allow_fault = false;

  template <class F>
  void window(F &&f) {
    threw = false;
    threw_fault = false;
    {
      MonScope m;
      ++g_stamp;
      ++n_calls;
      g_owner_check = false;
      req0 = g_alloc_requests + g_hooked_mallocs;
      ring_note("call");
    }
    g_in_call = true;
    try {
      f();
    } catch (const InjectedFault &) {
      g_in_call = false;
      if (!allow_fault) harness_fail("unexpected injected fault");
      MonScope m;
      threw = true;
      threw_fault = true;
      threw_what = "InjectedFault";
    } catch (const std::exception &e) {
      g_in_call = false;
      MonScope m;
      threw = true;
      threw_what = typeid(e).name();
    } catch (...) {
      g_in_call = false;
      MonScope m;
      threw = true;
      threw_what = "unknown";
    }
    g_in_call = false;
  }
  uint64_t reqs() const { return g_alloc_requests + g_hooked_mallocs - req0; }

  void set_op(const std::string &name, const std::string &states, const std::string &argclass, const std::string &desc) {
    MonScope m;
    g_cur_sig = name + "/" + states + "/" + argclass;
    g_cur_desc = desc;
    ++cells[g_cur_sig];
    if (cur_hist_text.size() < 3000) cur_hist_text += name + "(" + desc + "); ";
  }

  void begin_history(uint64_t seed, long h, uint64_t salt) {
    rng = Rng(Rng::mix(seed, static_cast<uint64_t>(h), salt));
    g_cur_hist = h;
    g_cur_op = 0;
    g_cut = false;
    MonScope m;
    ledger_reset();
    blk_reset();
    cur_hist_text.clear();
  }
  void end_history_ok() {
    MonScope m;
    ++n_hist;
    if (sample_hist.size() < 3) sample_hist.push_back(cur_hist_text);
    else if (g_fz_on && cur_hist_text.size() > sample_hist[n_hist % 3].size()) sample_hist[n_hist % 3] = cur_hist_text;  // fuzz mode: keep long ones
  }

  void write_summary(const char *cfg, uint64_t seed, long from, long next, long to, bool hook) {
    MonScope m;
    std::string c = "{";
    bool first = true;
    for (auto &kv : cells) {
      if (!first) c += ",";
      first = false;
      c += "\"" + jesc(kv.first) + "\":" + std::to_string(kv.second);
    }
    c += "}";
    std::string k = "{";
    first = true;
    for (auto &kv : counters) {
      if (!first) k += ",";
      first = false;
      k += "\"" + jesc(kv.first) + "\":" + std::to_string(kv.second);
    }
    k += "}";
    std::string samples = "[";
    for (size_t i = 0; i < sample_hist.size(); ++i) samples += (i ? ",\"" : "\"") + jesc(sample_hist[i]) + "\"";
    samples += "]";
    out_line(fmt("{\"t\":\"summary\",\"cfg\":\"%s\",\"seed\":%llu,\"from\":%ld,\"next\":%ld,\"to\":%ld,\"cut\":%d,\"histories\":%llu,\"calls\":%llu,"
                 "\"hook\":%d,\"hook_alive\":%llu,\"alloc\":%llu,\"dealloc\":%llu,\"realloc\":%llu,\"blk_peak\":%ld,\"cmp_calls\":%llu,"
                 "\"ev\":[%llu,%llu,%llu,%llu,%llu,%llu,%llu]",
                 cfg, (unsigned long long)seed, from, next, to, g_cut ? 1 : 0, (unsigned long long)n_hist, (unsigned long long)n_calls, hook ? 1 : 0,
                 (unsigned long long)g_hook_alive, (unsigned long long)g_n_alloc, (unsigned long long)g_n_dealloc, (unsigned long long)g_n_realloc,
                 g_blk_peak, 0ull, (unsigned long long)g_ev_all[0], (unsigned long long)g_ev_all[1], (unsigned long long)g_ev_all[2],
                 (unsigned long long)g_ev_all[3], (unsigned long long)g_ev_all[4], (unsigned long long)g_ev_all[5], (unsigned long long)g_ev_all[6]) +
             ",\"counters\":" + k + ",\"cells\":" + c + ",\"samples\":" + samples + "}");
  }
};

struct Args {
  uint64_t seed = 1;
  long from = 0, to = 10;
  int nops = 60;
  const char *out = nullptr, *ring = nullptr;
  std::vector<std::string> flags;
  bool has(const char *f) const {
    for (size_t i = 0; i < flags.size(); ++i)
      if (flags[i] == f) return true;
    return false;
  }
  void parse(int argc, char **argv) {
    for (int i = 1; i < argc; ++i) {
      std::string a = argv[i];
      if (a == "--seed") seed = strtoull(argv[++i], nullptr, 10);
      else if (a == "--from") from = atol(argv[++i]);
      else if (a == "--to") to = atol(argv[++i]);
      else if (a == "--ops") nops = atoi(argv[++i]);
      else if (a == "--out") out = argv[++i];
      else if (a == "--ring") ring = argv[++i];
      else flags.push_back(a);
    }
    if (out) open_out(out);
    if (ring) open_ring(ring);
  }
};

}  // namespace vf
