// Range sources in every iterator category std::vector accepts (DESIGN section 3).
#pragma once

#include <forward_list>
#include <iterator>
#include <algorithm>
#include <list>
#include <set>
#include <vector>

#include "../mon/elem.hpp"

namespace vf {

enum RangeKind { RK_PTR = 0, RK_RA, RK_LIST, RK_FWD, RK_INPUT, RK_MOVE, RK_PROTO, RK_VECIT, RK_REV, RK_N,
                 RK_MSET = RK_N };  // set engines only: the iterators of a std::multiset (the type of std::set<T, AnyCompare>::const_iterator as well); delivers the values in (key, payload) order, see multiset_order
inline const char *rkname(int k) {
  static const char *n[] = {"ptr", "random_access", "list", "forward_list", "single_pass_input", "move_iterator", "values_of_another_type", "vector_iterator", "reverse_iterator", "multiset_iterator"};
  return n[k];
}

// random access iterator that is neither a pointer nor contiguous: it walks over every second slot of an array (the slots in between hold
// junk values), so code that takes &*first for a block copy reads the wrong elements
template <class E>
struct RaIt {
  typedef std::random_access_iterator_tag iterator_category;
  typedef E value_type;
  typedef ptrdiff_t difference_type;
  typedef const E *pointer;
  typedef const E &reference;
  const E *p;
  RaIt() : p(nullptr) {}
  explicit RaIt(const E *q) : p(q) {}
  reference operator*() const { return *p; }
  pointer operator->() const { return p; }
  reference operator[](difference_type i) const { return p[2 * i]; }
  RaIt &operator++() { p += 2; return *this; }
  RaIt operator++(int) { RaIt t(*this); p += 2; return t; }
  RaIt &operator--() { p -= 2; return *this; }
  RaIt operator--(int) { RaIt t(*this); p -= 2; return t; }
  RaIt &operator+=(difference_type d) { p += 2 * d; return *this; }
  RaIt &operator-=(difference_type d) { p -= 2 * d; return *this; }
  RaIt operator+(difference_type d) const { return RaIt(p + 2 * d); }
  RaIt operator-(difference_type d) const { return RaIt(p - 2 * d); }
  friend RaIt operator+(difference_type d, RaIt i) { return RaIt(i.p + 2 * d); }
  difference_type operator-(const RaIt &o) const { return (p - o.p) / 2; }
  bool operator==(const RaIt &o) const { return p == o.p; }
  bool operator!=(const RaIt &o) const { return p != o.p; }
  bool operator<(const RaIt &o) const { return p < o.p; }
  bool operator>(const RaIt &o) const { return p > o.p; }
  bool operator<=(const RaIt &o) const { return p <= o.p; }
  bool operator>=(const RaIt &o) const { return p >= o.p; }
};

// single-pass input stream: all copies of the iterator share one cursor, as std::istream_iterator does.
// A second pass reads nothing but the sentinel; reading past the end is recorded.
template <class E>
struct InputStream {
  const E *arr;
  size_t n;
  size_t cursor;
  bool overrun;
  const E *sentinel;
};
template <class E>
struct InIt {
  typedef std::input_iterator_tag iterator_category;
  typedef E value_type;
  typedef ptrdiff_t difference_type;
  typedef const E *pointer;
  typedef const E &reference;
  InputStream<E> *st;
  bool isend;
  InIt() : st(nullptr), isend(true) {}
  InIt(InputStream<E> *s, bool e) : st(s), isend(e) {}
  bool atend() const { return isend || st->cursor >= st->n; }
  reference operator*() const {
    if (st->cursor >= st->n) {
      st->overrun = true;
      return *st->sentinel;
    }
    return st->arr[st->cursor];
  }
  pointer operator->() const { return &**this; }
  InIt &operator++() {
    if (st->cursor < st->n) ++st->cursor; else st->overrun = true;
    return *this;
  }
  InIt operator++(int) { InIt t(*this); ++*this; return t; }
  bool operator==(const InIt &o) const { return atend() == o.atend(); }
  bool operator!=(const InIt &o) const { return !(*this == o); }
};

inline void multiset_order(std::vector<Val> &vals) {
  std::stable_sort(vals.begin(), vals.end(), [](const Val &a, const Val &b) { return a.key != b.key ? a.key < b.key : a.pay < b.pay; });
}

// Builds harness-owned elements for `vals` and calls f(first, last) with iterators of the requested category.
// Must be entered with a MonScope active for the element constructions; `f` opens the monitored window itself.
template <class E, class F>
void with_range(int kind, const std::vector<Val> &vals, F &&f) {
  // storage of harness-held elements (constructed under MonScope by the caller's scope rules)
  switch (kind) {
    case RK_LIST: {
      std::list<E> l;
      {
        MonScope m;
        for (size_t i = 0; i < vals.size(); ++i) l.emplace_back(Mk<E>::make(vals[i]));
      }
      f(l.begin(), l.end());
      MonScope m;
      l.clear();
      break;
    }
    case RK_FWD: {
      std::forward_list<E> l;
      {
        MonScope m;
        for (size_t i = vals.size(); i-- > 0;) l.emplace_front(Mk<E>::make(vals[i]));
      }
      f(l.begin(), l.end());
      MonScope m;
      l.clear();
      break;
    }
    case RK_MSET: {
      // the caller has put `vals` into multiset_order: the multiset hands them out in that order, equivalent / duplicate values included
      struct ByVal { bool operator()(const E &a, const E &b) const { Val x = EI<E>::val(a), y = EI<E>::val(b); return x.key != y.key ? x.key < y.key : x.pay < y.pay; } };
      std::multiset<E, ByVal> ms;
      {
        MonScope m;
        for (size_t i = 0; i < vals.size(); ++i) ms.insert(Mk<E>::make(vals[i]));
      }
      f(ms.begin(), ms.end());
      MonScope m;
      ms.clear();
      break;
    }
    case RK_PROTO: {
      // values of another type that convert to E (as a range of double feeds a container of int)
      std::vector<Proto> pr;
      {
        MonScope m;
        for (size_t i = 0; i < vals.size(); ++i) { Proto p; p.key = vals[i].key; p.pay = vals[i].pay; p.half = 1; pr.push_back(p); }
      }
      const Proto *pb = pr.data();
      f(pb, pb + vals.size());
      MonScope m;
      pr.clear();
      break;
    }
    default: {
      std::vector<E> a;
      E *sent = nullptr;
      {
        MonScope m;
        a.reserve(vals.size() + 1);
        for (size_t i = 0; i < vals.size(); ++i) a.emplace_back(Mk<E>::make(vals[i]));
        sent = new E(Mk<E>::make(Val(-555, 0)));
      }
      const E *b = a.data();
      if (kind == RK_PTR) {
        f(b, b + vals.size());
      } else if (kind == RK_RA) {
        std::vector<E> strided;
        {
          MonScope m;
          strided.reserve(2 * vals.size() + 1);
          for (size_t i = 0; i < vals.size(); ++i) { strided.emplace_back(Mk<E>::make(vals[i])); strided.emplace_back(Mk<E>::make(Val(-777, 0))); }
        }
        const E *sb = strided.data();
        f(RaIt<E>(sb), RaIt<E>(sb + 2 * vals.size()));
        MonScope m;
        strided.clear();
      } else if (kind == RK_VECIT) {
        // iterators of class type over contiguous storage (std::vector<E>::const_iterator)
        const std::vector<E> &ca = a;
        f(ca.begin(), ca.end());
      } else if (kind == RK_REV) {
        // reverse iterators: random access, decreasing addresses
        std::vector<E> rv;
        {
          MonScope m;
          rv.reserve(vals.size());
          for (size_t i = vals.size(); i-- > 0;) rv.emplace_back(Mk<E>::make(vals[i]));
        }
        const E *rb = rv.data();
        f(std::reverse_iterator<const E *>(rb + vals.size()), std::reverse_iterator<const E *>(rb));
        MonScope m;
        rv.clear();
      } else if (kind == RK_MOVE) {
        E *mb = a.data();
        f(std::make_move_iterator(mb), std::make_move_iterator(mb + vals.size()));
      } else {
        InputStream<E> st;
        st.arr = b;
        st.n = vals.size();
        st.cursor = 0;
        st.overrun = false;
        st.sentinel = sent;
        f(InIt<E>(&st, false), InIt<E>(&st, true));
        if (st.overrun) violation("C01", "range.single_pass_overrun", "a single-pass input range was read beyond its end (second pass over the range)");
      }
      MonScope m;
      a.clear();
      delete sent;
      break;
    }
  }
}

}  // namespace vf
