// C16: one program, many builds.  Generates operation scripts from fixed seeds, applies them to the containers and prints
// every observable result (never addresses or capacities).  Transcripts of all builds are compared section by section.
// C++11 compatible.  Sections: STD (standard API), STD17 (standard API that needs C++17: nodes), EXTRAS (AMC_NONSTD_FEATURES),
// SMALLSET (C++17), FEATURES (what this configuration offers).
#include <amc/fixedcapacityvector.hpp>
#include <amc/flatset.hpp>
#include <amc/smallvector.hpp>
#include <amc/vector.hpp>
#ifdef AMC_SMALLSET
#include <amc/smallset.hpp>
#endif

#include <algorithm>
#include <cstdio>
#include <type_traits>
#if __cplusplus >= 202002L
#include <compare>
#endif
#include <cstdlib>
#include <cstring>
#include <deque>
#include <forward_list>
#include <functional>
#include <iterator>
#include <list>
#include <stdexcept>
#include <string>
#include <vector>

namespace sc {

struct Rng {
  unsigned long long s;
  explicit Rng(unsigned long long seed) : s(seed * 0x9E3779B97F4A7C15ull + 12345) { next(); }
  unsigned long long next() {
    unsigned long long z = (s += 0x9E3779B97F4A7C15ull);
    z = (z ^ (z >> 30)) * 0xBF58476D1CE4E5B9ull;
    z = (z ^ (z >> 27)) * 0x94D049BB133111EBull;
    return z ^ (z >> 31);
  }
  unsigned below(unsigned n) { return n ? static_cast<unsigned>(next() % n) : 0; }
};

static std::string g_out;
static void put(const char *f, long a = 0, long b = 0, long c = 0) {
  char buf[160];
  snprintf(buf, sizeof buf, f, a, b, c);
  g_out += buf;
}

// ---- element types
struct P {  // trivially copyable
  int a;
  short b;
  P() : a(0), b(0) {}
  P(int v) : a(v), b(static_cast<short>(v * 3)) {}
  int value() const { return a; }
  bool operator==(const P &o) const { return a == o.a; }
  bool operator<(const P &o) const { return a < o.a; }
  bool operator>(const P &o) const { return a > o.a; }
#if __cplusplus >= 202002L
  std::strong_ordering operator<=>(const P &o) const { return a <=> o.a; }
#endif
};
template <bool TR>
struct SBase {  // owns heap memory: a lifetime error changes the output or crashes
  char *p;
  SBase() : p(dup(0)) {}
  SBase(int v) : p(dup(v)) {}
  SBase(const SBase &o) : p(dup(o.value())) {}
  SBase(SBase &&o) noexcept : p(o.p) { o.p = nullptr; }
  SBase &operator=(const SBase &o) {
    if (this != &o) { char *q = dup(o.value()); free(p); p = q; }
    return *this;
  }
  SBase &operator=(SBase &&o) noexcept {
    if (this != &o) { free(p); p = o.p; o.p = nullptr; }
    return *this;
  }
  ~SBase() { free(p); }
  static char *dup(int v) {
    char *q = static_cast<char *>(malloc(16));
    snprintf(q, 16, "%d", v);
    return q;
  }
  int value() const { return p ? atoi(p) : -99999; }
  bool operator==(const SBase &o) const { return value() == o.value(); }
  bool operator<(const SBase &o) const { return value() < o.value(); }
  bool operator>(const SBase &o) const { return value() > o.value(); }
#if __cplusplus >= 202002L
  std::strong_ordering operator<=>(const SBase &o) const { return value() <=> o.value(); }
#endif
  typedef typename std::conditional<TR, std::true_type, std::false_type>::type trivially_relocatable;
};
// elements whose size is not a divisor / multiple of a pointer (how many of them share the bytes of the heap pointer)
template <unsigned SZ>
struct B {
  unsigned char c[SZ];
  B() { for (unsigned i = 0; i < SZ; ++i) c[i] = 0; }
  B(int v) { for (unsigned i = 0; i < SZ; ++i) c[i] = static_cast<unsigned char>((v >> (8 * (i % 2))) & 0xFF); }
  int value() const { return c[0] | (SZ > 1 ? c[1] << 8 : 0); }
  bool operator==(const B &o) const { return value() == o.value(); }
  bool operator<(const B &o) const { return value() < o.value(); }
  bool operator>(const B &o) const { return value() > o.value(); }
#if __cplusplus >= 202002L
  std::strong_ordering operator<=>(const B &o) const { return value() <=> o.value(); }
#endif
};
template <unsigned SZ> inline int val(const B<SZ> &v) { return v.value(); }
// implicit (defaulted) but non trivial default constructor, scalar members without initialiser: value-initialisation (resize(n), vector(n),
// append(n)) must zero them, whatever the storage held before
struct HasCtor { int z; HasCtor() : z(7) {} };
struct Rec {
  int id;
  unsigned tag;
  HasCtor h;
  Rec() = default;
  Rec(int v) : id(v), tag(static_cast<unsigned>(v) * 3u) {}
  int value() const { return h.z == 7 ? id * 4 + static_cast<int>(tag % 4u) : -77777; }
  bool operator==(const Rec &o) const { return id == o.id; }
  bool operator<(const Rec &o) const { return id < o.id; }
  bool operator>(const Rec &o) const { return id > o.id; }
#if __cplusplus >= 202002L
  std::strong_ordering operator<=>(const Rec &o) const { return id <=> o.id; }
#endif
};
inline int val(const Rec &v) { return v.value(); }
typedef SBase<false> S;
typedef SBase<true> SR;
inline int val(int v) { return v; }
inline int val(const P &v) { return v.value(); }
template <bool TR> inline int val(const SBase<TR> &v) { return v.value(); }

template <class V>
void dump(const char *name, const V &v) {
  g_out += " ";
  g_out += name;
  put("[%ld]:", static_cast<long>(v.size()));
  for (typename V::const_iterator it = v.begin(); it != v.end(); ++it) put(" %ld", val(*it));
  g_out += "\n";
}

// ---- range sources of every iterator category (the category selects different code before C++17): the same values are presented through
// std::vector iterators, raw pointers, std::list, std::forward_list, a std::deque positioned across one of its blocks, reverse iterators over a
// reversed copy (random access but not contiguous) and move iterators. `op` is a functor with a template operator()(first, last).
// contiguous buffer of T (std::vector<bool> is not a container of bool)
template <class T>
struct Buf {
  T *p;
  size_t n, cap;
  Buf() : p(nullptr), n(0), cap(0) {}
  Buf(const Buf &o) : p(o.cap ? new T[o.cap] : nullptr), n(o.n), cap(o.cap) { for (size_t i = 0; i < n; ++i) p[i] = o.p[i]; }
  ~Buf() { delete[] p; }
  void push_back(const T &v) {
    if (n == cap) { size_t nc = cap ? 2 * cap : 4; T *q = new T[nc]; for (size_t i = 0; i < n; ++i) q[i] = p[i]; delete[] p; p = q; cap = nc; }
    p[n++] = v;
  }
  size_t size() const { return n; }
  bool empty() const { return n == 0; }
  const T &operator[](size_t i) const { return p[i]; }
  const T *begin() const { return p; }
  const T *end() const { return p + n; }
  T *begin() { return p; }
  T *end() { return p + n; }
 private:
  Buf &operator=(const Buf &);
};
template <class T> struct VectorIterators {
  template <class Op> static void go(const Buf<T> &src, Op op) { std::vector<T> v(src.begin(), src.end()); op(v.begin(), v.end()); }
};
template <> struct VectorIterators<bool> {
  template <class Op> static void go(const Buf<bool> &src, Op op) { op(src.begin(), src.end()); }
};
template <class T, class Op>
void feed(unsigned kind, const Buf<T> &src, Op op) {
  switch (kind % 7) {
    case 0: VectorIterators<T>::go(src, op); break;
    case 1: op(src.begin(), src.end()); break;
    case 2: { std::list<T> l(src.begin(), src.end()); op(l.begin(), l.end()); break; }
    case 3: { std::forward_list<T> l(src.begin(), src.end()); op(l.begin(), l.end()); break; }
    case 4: {
      std::deque<T> d;
      const size_t per_block = sizeof(T) < 512 ? 512 / sizeof(T) : 1;
      for (size_t i = 0; i + 1 < per_block; ++i) d.push_back(T(777));
      for (size_t i = 0; i < src.size(); ++i) d.push_back(src[i]);
      op(d.begin() + static_cast<std::ptrdiff_t>(per_block - 1), d.end());
      break;
    }
    case 5: {
      Buf<T> r;
      for (size_t i = src.size(); i-- > 0;) r.push_back(src[i]);
      const Buf<T> &cr = r;
      op(std::reverse_iterator<const T *>(cr.end()), std::reverse_iterator<const T *>(cr.begin()));
      break;
    }
    default: { Buf<T> c(src); op(std::make_move_iterator(c.begin()), std::make_move_iterator(c.end())); break; }
  }
}
// eighth source kind: values of ANOTHER integral type of the same size (a range of unsigned char feeding a vector of bool or of signed char ...):
// each element must be converted, a byte copy is not a conversion
template <class T> struct OtherIntegral { typedef T type; };
template <> struct OtherIntegral<bool> { typedef unsigned char type; };
template <> struct OtherIntegral<signed char> { typedef unsigned char type; };
template <> struct OtherIntegral<unsigned char> { typedef signed char type; };
template <> struct OtherIntegral<char> { typedef unsigned char type; };
template <> struct OtherIntegral<short> { typedef unsigned short type; };
template <> struct OtherIntegral<int> { typedef unsigned type; };
template <class T, class Op>
void feed2(unsigned kind, const Buf<T> &src, const std::vector<int> &raw, Op op) {
  typedef typename OtherIntegral<T>::type O;
  if (kind % 8 != 7 || std::is_same<O, T>::value) { feed(kind % 8 == 7 ? 0u : kind % 8, src, op); return; }
  std::vector<O> other;
  for (size_t i = 0; i < raw.size(); ++i) other.push_back(static_cast<O>(raw[i]));
  const O *b = other.empty() ? static_cast<const O *>(nullptr) : &other[0];
  if (raw.size() % 2) op(b, b + other.size());
  else op(other.begin(), other.end());
}

template <class V>
struct InsertRangeOp {
  V *v; unsigned pos; long *at;
  template <class It> void operator()(It f, It l) const { typename V::iterator it = v->insert(v->begin() + pos, f, l); *at = static_cast<long>(it - v->begin()); }
};
template <class V>
struct AssignRangeOp {
  V *v;
  template <class It> void operator()(It f, It l) const { v->assign(f, l); }
};
template <class V>
struct CtorRangeOp {
  V *out;
  template <class It> void operator()(It f, It l) const { V c(f, l); *out = c; }
};
template <class FS>
struct SetInsertRangeOp {
  FS *s;
  template <class It> void operator()(It f, It l) const { s->insert(f, l); }
};
#ifdef AMC_NONSTD_FEATURES
template <class V>
struct AppendRangeOp {
  V *v;
  template <class It> void operator()(It f, It l) const { v->append(f, l); }
};
#endif

// ---------------------------------------------------------------- floating point fills, printed bit by bit
// count + value operations with values whose object representation matters (-0.0 compares equal to +0.0 and is not all-zero bits; a NaN payload)
template <class V>
void float_fill_script(const char *tname, Rng &rng, int nops) {
  typedef typename V::value_type T;
  typedef typename V::size_type SizeT;
  g_out += "script fills<"; g_out += tname; g_out += ">\n";
  const T vals[] = {static_cast<T>(-0.0), static_cast<T>(0.0), static_cast<T>(1.5), static_cast<T>(-2.5), static_cast<T>(-1.0) * static_cast<T>(0.0), static_cast<T>(1e-30)};
  V v;
  for (int i = 0; i < nops; ++i) {
    const T x = vals[rng.below(6)];
    unsigned sz = static_cast<unsigned>(v.size());
    unsigned op = rng.below(6);
    unsigned n = rng.below(4);
    put("op %ld:", op);
    switch (op) {
      case 0: { V c(static_cast<SizeT>(n), x); v.swap(c); break; }
      case 1: if (sz + n <= 8) v.resize(static_cast<SizeT>(sz + n), x); break;
      case 2: v.assign(static_cast<SizeT>(n + 1), x); break;
      case 3: if (sz + n <= 8) v.insert(v.begin() + rng.below(sz + 1), static_cast<SizeT>(n), x); break;
      case 4: if (sz) v.erase(v.begin() + rng.below(sz)); break;
#ifdef AMC_NONSTD_FEATURES
      default: if (sz + n <= 8) v.append(static_cast<SizeT>(n), x); break;
#else
      default: if (sz + n <= 8) v.insert(v.end(), static_cast<SizeT>(n), x); break;
#endif
    }
    for (typename V::const_iterator it = v.begin(); it != v.end(); ++it) {
      unsigned char b[sizeof(T)];
      std::memcpy(b, &*it, sizeof(T));
      g_out += " ";
      for (size_t k = 0; k < sizeof(T); ++k) { char h[4]; snprintf(h, sizeof h, "%02x", b[k]); g_out += h; }
    }
    g_out += "\n";
  }
}

// ---------------------------------------------------------------- standard vector API
// one-byte integral elements start close to the sign change (values run from 100 over 127 to negative ones): code specialised on byte-sized
// elements must order them as signed values, like the generic code
template <class T, bool BYTE = std::is_integral<T>::value && sizeof(T) == 1>
struct FirstValue { static int get() { return 1; } };
template <class T>
struct FirstValue<T, true> { static int get() { return 100; } };

template <class V, unsigned MAXLEN>
void vector_script(const char *tname, Rng &rng, int nops) {
  typedef typename V::value_type T;
  typedef typename V::size_type SizeT;
  V pool[3];
  g_out += "script vector<"; g_out += tname; g_out += ">\n";
  int next_value = FirstValue<T>::get();
  for (int i = 0; i < nops; ++i) {
    V &v = pool[rng.below(3)];
    V &w = pool[rng.below(3)];
    const unsigned sz = static_cast<unsigned>(v.size());
    const unsigned room = MAXLEN - sz;
    unsigned op = rng.below(24);
    unsigned pos = rng.below(sz + 1);
    put("op %ld:", op);
    switch (op) {
      case 0: if (room) { T x(next_value++); v.push_back(x); } break;
      case 1: if (room) v.push_back(T(next_value++)); break;
      case 2: if (room) { T &r = v.emplace_back(next_value++); put(" ref=%ld", val(r)); } break;
      case 3: if (room) { typename V::iterator it = v.emplace(v.begin() + pos, next_value++); put(" at=%ld", static_cast<long>(it - v.begin())); } break;
      case 4: if (room) { T x(next_value++); typename V::iterator it = v.insert(v.begin() + pos, x); put(" at=%ld", static_cast<long>(it - v.begin())); } break;
      case 5: if (room) { typename V::iterator it = v.insert(v.begin() + pos, T(next_value++)); put(" at=%ld", static_cast<long>(it - v.begin())); } break;
      case 6: { unsigned n = rng.below(4); if (n <= room) { T x(next_value++); typename V::iterator it = v.insert(v.begin() + pos, static_cast<SizeT>(n), x); put(" at=%ld", static_cast<long>(it - v.begin())); } break; }
      case 7: { unsigned n = rng.below(5); unsigned kind = rng.below(8); if (n <= room) { Buf<T> src; std::vector<int> raw; for (unsigned k = 0; k < n; ++k) { raw.push_back(next_value); src.push_back(T(next_value++)); } long at = -1; InsertRangeOp<V> o = {&v, pos, &at}; feed2(kind, src, raw, o); put(" at=%ld", at); } break; }
      case 8: if (room >= 2) { T a(next_value++), b(next_value++); typename V::iterator it = v.insert(v.begin() + pos, {a, b}); put(" at=%ld", static_cast<long>(it - v.begin())); } break;
      case 9: if (sz) v.pop_back(); break;
      case 10: if (sz) { unsigned p = rng.below(sz); typename V::iterator it = v.erase(v.begin() + p); put(" at=%ld", static_cast<long>(it - v.begin())); } break;
      case 11: { unsigned f = rng.below(sz + 1), l = f + rng.below(sz - f + 1); typename V::iterator it = v.erase(v.begin() + f, v.begin() + l); put(" at=%ld", static_cast<long>(it - v.begin())); break; }
      case 12: { unsigned n = rng.below(MAXLEN + 1); v.resize(static_cast<SizeT>(n)); break; }
      case 13: { unsigned n = rng.below(MAXLEN + 1); T x(next_value++); v.resize(static_cast<SizeT>(n), x); break; }
      case 14: { unsigned n = rng.below(MAXLEN + 1); T x(next_value++); v.assign(static_cast<SizeT>(n), x); break; }
      case 15: { unsigned n = rng.below(MAXLEN + 1); unsigned kind = rng.below(8); Buf<T> src; std::vector<int> raw; for (unsigned k = 0; k < n; ++k) { raw.push_back(next_value); src.push_back(T(next_value++)); } if (rng.below(3) == 0) { CtorRangeOp<V> o = {&v}; feed2(kind, src, raw, o); } else { AssignRangeOp<V> o = {&v}; feed2(kind, src, raw, o); } break; }
      case 16: v.clear(); break;
      case 17: v.reserve(static_cast<SizeT>(rng.below(MAXLEN + 1))); v.shrink_to_fit(); break;
      case 18: v.swap(w); break;
      case 19: if (&v != &w) v = w; break;
      case 20: if (&v != &w) v = std::move(w); w.clear(); break;
      case 21: { V c(v); put(" copy_eq=%ld", c == v); V m(std::move(c)); put(" move_eq=%ld", m == v); break; }
      case 22: put(" cmp=%ld%ld", v == w, v != w); put("%ld%ld", v < w, v <= w); put("%ld%ld", v > w, v >= w); break;
      case 23: {
        try { (void)v.at(static_cast<SizeT>(sz)); put(" at:none"); } catch (const std::out_of_range &) { put(" at:out_of_range"); }
        if (sz) put(" front=%ld back=%ld", val(v.front()), val(v.back()));
        if (sz) put(" idx=%ld", val(v[static_cast<SizeT>(rng.below(sz))]));
        unsigned long sum = 0; for (typename V::const_reverse_iterator it = v.rbegin(); it != v.rend(); ++it) sum = (sum * 3 + static_cast<unsigned long>(val(*it))) % 1000003UL; put(" rsum=%ld", static_cast<long>(sum));
        break;
      }
    }
    g_out += "\n";
    dump("v", v);
    if (op == 18 || op == 19 || op == 20) dump("w", w);
  }
}

// ---------------------------------------------------------------- exception paths: an element whose k-th copy throws
struct Boom {};
struct TH {
  static long live, copies, throw_at, bad_dtor;
  int v;
  unsigned magic;
  TH(int x = 0) : v(x), magic(0x600DF00Du) { ++live; }
  TH(const TH &o) : v(o.v) {
    if (++copies == throw_at) throw Boom();
    magic = 0x600DF00Du;
    ++live;
  }
  TH(TH &&o) noexcept : v(o.v), magic(0x600DF00Du) { ++live; }
  TH &operator=(const TH &o) {
    if (++copies == throw_at) throw Boom();
    v = o.v;
    return *this;
  }
  TH &operator=(TH &&o) noexcept { v = o.v; return *this; }
  ~TH() {
    if (magic != 0x600DF00Du) { ++bad_dtor; return; }  // destructor run on something that is not a live TH
    magic = 0xDEADDEADu;
    --live;
  }
  int value() const { return v; }
  bool operator==(const TH &o) const { return v == o.v; }
  bool operator<(const TH &o) const { return v < o.v; }
#if __cplusplus >= 202002L
  std::strong_ordering operator<=>(const TH &o) const { return v <=> o.v; }
#endif
};
long TH::live = 0, TH::copies = 0, TH::throw_at = -1, TH::bad_dtor = 0;
inline int val(const TH &v) { return v.value(); }

template <class V, unsigned MAXLEN>
void throwing_script(const char *tname, Rng &rng, int nops) {
  typedef typename V::size_type SizeT;
  g_out += "script throwing<"; g_out += tname; g_out += ">\n";
  const long live0 = TH::live;
  {
    V pool[2];
    int next_value = 1;
    for (int i = 0; i < nops; ++i) {
      V &v = pool[rng.below(2)];
      V &w = pool[rng.below(2)];
      const unsigned sz = static_cast<unsigned>(v.size());
      const unsigned room = MAXLEN - sz;
      unsigned op = rng.below(10);
      unsigned pos = rng.below(sz + 1);
      std::vector<TH> src;
      unsigned n = rng.below(5);
      for (unsigned k = 0; k < n; ++k) src.push_back(TH(next_value++));
      TH x(next_value++);
      bool threw = false;
      TH::throw_at = rng.below(3) == 0 ? -1 : TH::copies + 1 + static_cast<long>(rng.below(5));
      try {
        switch (op) {
          case 0: if (room) v.push_back(x); break;
          case 1: if (room) v.insert(v.begin() + pos, x); break;
          case 2: if (n <= room) v.insert(v.begin() + pos, static_cast<SizeT>(n), x); break;
          case 3: if (n <= room) v.insert(v.begin() + pos, src.begin(), src.end()); break;
          case 4: if (n <= MAXLEN) v.assign(src.begin(), src.end()); break;
          case 5: if (n <= MAXLEN) v.assign(static_cast<SizeT>(n), x); break;
          case 6: if (&v != &w) v = w; break;
          case 7: if (sz + n <= MAXLEN) v.resize(static_cast<SizeT>(sz + n), x); break;
          case 8: { V c(v); put(" copied=%ld", static_cast<long>(c.size())); break; }
          case 9: if (sz) v.erase(v.begin() + rng.below(sz)); break;
        }
      } catch (const Boom &) {
        threw = true;
      }
      TH::throw_at = -1;
      put("op %ld threw=%ld", op, threw);
      put(" bad_dtor=%ld", TH::bad_dtor);
      // every element object that is alive is either visible in a pool vector or one of the locals (x and src)
      put(" hidden_live=%ld\n", TH::live - live0 - static_cast<long>(pool[0].size() + pool[1].size()) - 1 - static_cast<long>(src.size()));
      dump("v", v);
    }
  }
  put("end live=%ld bad_dtor=%ld\n", TH::live - live0, TH::bad_dtor);
}

// ---------------------------------------------------------------- standard FlatSet API
template <class FS>
void flatset_script(const char *tname, Rng &rng, int nops, unsigned maxlen) {
  typedef typename FS::value_type T;
  FS pool[3];
  g_out += "script flatset<"; g_out += tname; g_out += ">\n";
  for (int i = 0; i < nops; ++i) {
    FS &s = pool[rng.below(3)];
    FS &o = pool[rng.below(3)];
    unsigned op = rng.below(16);
    int key = static_cast<int>(rng.below(20));
    const unsigned sz = static_cast<unsigned>(s.size());
    put("op %ld key %ld:", op, key);
    switch (op) {
      case 0: if (sz < maxlen) { T x(key); std::pair<typename FS::iterator, bool> r = s.insert(x); put(" ins=%ld at=%ld", r.second, static_cast<long>(r.first - s.begin())); } break;
      case 1: if (sz < maxlen) { std::pair<typename FS::iterator, bool> r = s.insert(T(key)); put(" ins=%ld at=%ld", r.second, static_cast<long>(r.first - s.begin())); } break;
      case 2: if (sz < maxlen) { std::pair<typename FS::iterator, bool> r = s.emplace(key); put(" ins=%ld at=%ld", r.second, static_cast<long>(r.first - s.begin())); } break;
      case 3: if (sz < maxlen) { T x(key); typename FS::iterator it = s.insert(s.begin() + rng.below(sz + 1), x); put(" at=%ld", static_cast<long>(it - s.begin())); } break;
      case 4: if (sz < maxlen) { typename FS::iterator it = s.emplace_hint(s.begin() + rng.below(sz + 1), key); put(" at=%ld", static_cast<long>(it - s.begin())); } break;
      case 5: { unsigned n = rng.below(5); unsigned kind = rng.below(7); if (sz + n <= maxlen) { Buf<T> src; for (unsigned k = 0; k < n; ++k) src.push_back(T(static_cast<int>(rng.below(20)))); SetInsertRangeOp<FS> o = {&s}; feed(kind, src, o); } break; }
      case 6: { T x(key); put(" erased=%ld", static_cast<long>(s.erase(x))); break; }
      case 7: if (sz) { typename FS::iterator it = s.erase(s.begin() + rng.below(sz)); put(" at=%ld", static_cast<long>(it - s.begin())); } break;
      case 8: { unsigned f = rng.below(sz + 1), l = f + rng.below(sz - f + 1); typename FS::iterator it = s.erase(s.begin() + f, s.begin() + l); put(" at=%ld", static_cast<long>(it - s.begin())); break; }
      case 9: {
        T x(key);
        put(" find=%ld", static_cast<long>(s.find(x) - s.begin()));
        put(" has=%ld cnt=%ld", s.contains(x), static_cast<long>(s.count(x)));
        put(" lb=%ld ub=%ld", static_cast<long>(s.lower_bound(x) - s.begin()), static_cast<long>(s.upper_bound(x) - s.begin()));
        std::pair<typename FS::const_iterator, typename FS::const_iterator> er = s.equal_range(x);
        put(" er=%ld", static_cast<long>(er.second - er.first));
        break;
      }
      case 10: if (&s != &o && s.size() + o.size() <= maxlen) { s.merge(o); } break;
      case 11: s.swap(o); break;
      case 12: if (&s != &o) s = o; break;
      case 13: if (&s != &o) { s = std::move(o); o.clear(); } break;
      case 14: put(" cmp=%ld%ld", s == o, s != o); put("%ld%ld", s < o, s <= o); put("%ld%ld", s > o, s >= o); break;
      case 15: s.clear(); break;
    }
    g_out += "\n";
    dump("s", s);
    if (op >= 10 && op <= 13) dump("o", o);
  }
}

#ifdef AMC_CXX17
template <class FS>
void flatset_node_script(const char *tname, Rng &rng, int nops) {
  typedef typename FS::value_type T;
  FS a, b;
  g_out += "script flatset-nodes<"; g_out += tname; g_out += ">\n";
  for (int i = 0; i < nops; ++i) {
    int key = static_cast<int>(rng.below(12));
    unsigned op = rng.below(4);
    put("op %ld key %ld:", op, key);
    if (op == 0) { a.emplace(key); }
    else if (op == 1) { b.emplace(key); }
    else if (op == 2) {
      T x(key);
      typename FS::node_type nh = a.extract(x);
      put(" node=%ld", !nh.empty());
      typename FS::insert_return_type r = b.insert(std::move(nh));
      put(" ins=%ld kept=%ld", r.inserted, !r.node.empty());
      if (!r.node.empty()) put(" keptval=%ld", val(r.node.value()));
    } else if (!b.empty()) {
      typename FS::node_type nh = b.extract(b.begin() + rng.below(static_cast<unsigned>(b.size())));
      put(" nodeval=%ld", val(nh.value()));
      typename FS::iterator it = a.insert(a.begin(), std::move(nh));
      put(" at=%ld", static_cast<long>(it - a.begin()));
    }
    g_out += "\n";
    dump("a", a);
    dump("b", b);
  }
}
#endif

// ---------------------------------------------------------------- extras
#ifdef AMC_NONSTD_FEATURES
template <class V, class W, unsigned MAXV, unsigned MAXW>
void extras_script(const char *tname, Rng &rng, int nops) {
  typedef typename V::value_type T;
  typedef typename V::size_type SizeT;
  V v;
  W w;
  int next_value = 1;
  g_out += "script extras<"; g_out += tname; g_out += ">\n";
  for (int i = 0; i < nops; ++i) {
    unsigned op = rng.below(8);
    unsigned sz = static_cast<unsigned>(v.size());
    put("op %ld:", op);
    switch (op) {
      case 0: { unsigned n = rng.below(5); unsigned kind = rng.below(8); if (sz + n <= MAXV) { Buf<T> src; std::vector<int> raw; for (unsigned k = 0; k < n; ++k) { raw.push_back(next_value); src.push_back(T(next_value++)); } AppendRangeOp<V> o = {&v}; feed2(kind, src, raw, o); } break; }
      case 1: { unsigned n = rng.below(4); if (sz + n <= MAXV) v.append(static_cast<SizeT>(n)); break; }
      case 2: { unsigned n = rng.below(4); if (sz + n <= MAXV) { T x(next_value++); v.append(static_cast<SizeT>(n), x); } break; }
      case 3: if (sz + 2 <= MAXV) { T a(next_value++), b(next_value++); v.append({a, b}); } break;
      case 4: if (sz) { T x = v.pop_back_val(); put(" popped=%ld", val(x)); } break;
      case 5: if (v.size() <= MAXW && w.size() <= MAXV) { v.swap2(w); } break;
      case 6: if (w.size() < MAXW) w.emplace_back(next_value++); break;
      case 7: if (v.size() <= MAXW && w.size() <= MAXV) { w.swap2(v); } break;
    }
    g_out += "\n";
    dump("v", v);
    dump("w", w);
  }
}
template <class FS>
void flatset_extras_script(const char *tname, Rng &rng, int nops) {
  typedef typename FS::value_type T;
  typedef typename FS::vector_type VT;
  FS s;
  g_out += "script flatset-extras<"; g_out += tname; g_out += ">\n";
  for (int i = 0; i < nops; ++i) {
    unsigned op = rng.below(5);
    put("op %ld:", op);
    if (op == 0) { VT v; unsigned n = rng.below(24); for (unsigned k = 0; k < n; ++k) v.emplace_back(static_cast<int>(rng.below(30))); FS t(std::move(v)); s.swap(t); }
    else if (op == 1) { VT v; unsigned n = rng.below(6); for (unsigned k = 0; k < n; ++k) v.emplace_back(static_cast<int>(rng.below(30))); s = std::move(v); }
    else if (op == 2) { VT v = s.steal_vector(); put(" stolen=%ld left=%ld", static_cast<long>(v.size()), static_cast<long>(s.size())); FS t(std::move(v)); s.swap(t); }
    else if (op == 3) { if (!s.empty()) { unsigned k = rng.below(static_cast<unsigned>(s.size())); put(" idx=%ld at=%ld data=%ld", val(s[static_cast<typename FS::size_type>(k)]), val(s.at(static_cast<typename FS::size_type>(k))), val(s.data()[k])); } }
    else { s.emplace(static_cast<int>(rng.below(30))); s.reserve(static_cast<typename FS::size_type>(s.size() + rng.below(5))); s.shrink_to_fit(); }
    (void)sizeof(T);
    g_out += "\n";
    dump("s", s);
  }
}
#endif

// ---------------------------------------------------------------- SmallSet
#ifdef AMC_SMALLSET
template <class SS>
void dump_set(const char *name, const SS &s) {
  std::vector<int> v;
  for (typename SS::const_iterator it = s.begin(); it != s.end(); ++it) v.push_back(val(*it));
  std::sort(v.begin(), v.end());  // the inline state is unordered: print as a set
  g_out += " "; g_out += name;
  put("[%ld]:", static_cast<long>(s.size()));
  for (size_t i = 0; i < v.size(); ++i) put(" %ld", v[i]);
  g_out += "\n";
}
template <class SS>
void smallset_script(const char *tname, Rng &rng, int nops) {
  typedef typename SS::value_type T;
  SS pool[2];
  g_out += "script smallset<"; g_out += tname; g_out += ">\n";
  for (int i = 0; i < nops; ++i) {
    SS &s = pool[rng.below(2)];
    SS &o = pool[rng.below(2)];
    unsigned op = rng.below(12);
    int key = static_cast<int>(rng.below(14));
    put("op %ld key %ld:", op, key);
    switch (op) {
      case 0: { T x(key); put(" ins=%ld", s.insert(x).second); break; }
      case 1: put(" ins=%ld", s.insert(T(key)).second); break;
      case 2: put(" ins=%ld", s.emplace(key).second); break;
      case 3: { T x(key); put(" erased=%ld", static_cast<long>(s.erase(x))); break; }
      case 4: { T x(key); put(" has=%ld cnt=%ld found=%ld", s.contains(x), static_cast<long>(s.count(x)), s.find(x) != s.end()); break; }
      case 5: { long n = 0; for (typename SS::const_iterator it = s.begin(); it != s.end();) { if (val(*it) % 3 == key % 3) { it = s.erase(it); ++n; } else ++it; } put(" loop_erased=%ld", n); break; }
      case 6: if (&s != &o) s.merge(o); break;
      case 7: s.swap(o); break;
      case 8: if (&s != &o) s = o; break;
      case 9: put(" cmp=%ld%ld", s == o, s != o); put("%ld%ld", s < o, s <= o); put("%ld%ld", s > o, s >= o); break;
      case 10: { T x(key); typename SS::node_type nh = s.extract(x); put(" node=%ld", !nh.empty()); typename SS::insert_return_type r = o.insert(std::move(nh)); put(" ins=%ld kept=%ld", r.inserted, !r.node.empty()); break; }
      case 11: if (rng.below(4) == 0) s.clear(); break;
    }
    g_out += "\n";
    dump_set("s", s);
    if (op >= 6 && op <= 8) dump_set("o", o);
    if (op == 10) dump_set("o", o);
  }
}
#endif

// ---------------------------------------------------------------- feature probes (detection idiom; access control is part of SFINAE)
template <class...> struct voider { typedef void type; };
#define PROBE(NAME, EXPR)                                                                                    \
  template <class V, class = void> struct NAME : std::false_type {};                                           \
  template <class V> struct NAME<V, typename voider<decltype(EXPR)>::type> : std::true_type {};
PROBE(has_pop_back_val, std::declval<V &>().pop_back_val())
PROBE(has_append_n, std::declval<V &>().append(typename V::size_type()))
PROBE(has_swap2, std::declval<V &>().swap2(std::declval<V &>()))
PROBE(has_steal_vector, std::declval<V &>().steal_vector())
PROBE(has_fs_data, std::declval<const V &>().data())
PROBE(has_fs_capacity, std::declval<const V &>().capacity())
PROBE(has_fs_index, std::declval<const V &>()[typename V::size_type()])

}  // namespace sc

int main(int argc, char **argv) {
  using namespace sc;
  long from = 0, to = 10;
  int nops = 60;
  unsigned long long seed = 1;
  const char *outdir = nullptr;
  for (int i = 1; i < argc; ++i) {
    std::string a = argv[i];
    if (a == "--from") from = atol(argv[++i]);
    else if (a == "--to") to = atol(argv[++i]);
    else if (a == "--ops") nops = atoi(argv[++i]);
    else if (a == "--seed") seed = strtoull(argv[++i], nullptr, 10);
    else if (a == "--outdir") outdir = argv[++i];
  }
  if (!outdir) { fprintf(stderr, "--outdir needed\n"); return 2; }
  const char *sections[] = {"STD", "STD17", "EXTRAS", "SMALLSET", "FEATURES", "THROW"};
  for (int sec = 0; sec < 6; ++sec) {
    std::string path = std::string(outdir) + "/" + sections[sec] + ".txt";
    FILE *f = fopen(path.c_str(), "w");
    if (!f) { perror("fopen"); return 2; }
    for (long h = from; h < to; ++h) {
      g_out.clear();
      Rng rng(seed * 1000003ull + static_cast<unsigned long long>(h) * 7919ull + static_cast<unsigned long long>(sec));
      char head[64];
      snprintf(head, sizeof head, "=== script %ld\n", h);
      g_out += head;
      if (sec == 0) {
        switch (h % 25) {
          case 22: float_fill_script<amc::vector<double> >("double", rng, nops); break;
          case 23: float_fill_script<amc::SmallVector<float, 4> >("float,4", rng, nops); break;
          case 24: float_fill_script<amc::FixedCapacityVector<double, 8> >("double,fixed8", rng, nops); break;
          case 8: vector_script<amc::SmallVector<B<3>, 3>, 20>("B3,3", rng, nops); break;
          case 9: vector_script<amc::SmallVector<B<5>, 2>, 20>("B5,2", rng, nops); break;
          case 10: vector_script<amc::SmallVector<B<7>, 2, std::allocator<B<7> >, unsigned char>, 20>("B7,2,u8", rng, nops); break;
          case 11: vector_script<amc::SmallVector<B<6>, 5>, 20>("B6,5", rng, nops); break;
          case 12: vector_script<amc::SmallVector<B<3>, 11, amc::allocator<B<3> >, unsigned short>, 30>("B3,11,u16", rng, nops); break;
          case 19: vector_script<amc::vector<bool>, 40>("bool", rng, nops); break;
          case 20: vector_script<amc::SmallVector<bool, 12, amc::allocator<bool>, unsigned char>, 30>("bool,12,u8", rng, nops); break;
          case 21: vector_script<amc::FixedCapacityVector<unsigned char, 16>, 16>("uchar,fixed16", rng, nops); break;
          case 16: vector_script<amc::vector<Rec>, 30>("Rec", rng, nops); break;
          case 17: vector_script<amc::SmallVector<Rec, 3>, 24>("Rec,3", rng, nops); break;
          case 18: vector_script<amc::FixedCapacityVector<Rec, 10>, 10>("Rec,fixed10", rng, nops); break;
          case 13: vector_script<amc::vector<signed char>, 40>("schar", rng, nops); break;
          case 14: vector_script<amc::SmallVector<char, 6>, 30>("char,6", rng, nops); break;
          case 15: vector_script<amc::FixedCapacityVector<signed char, 12>, 12>("schar,fixed12", rng, nops); break;
          case 0: vector_script<amc::vector<int>, 40>("int", rng, nops); break;
          case 1: vector_script<amc::SmallVector<S, 3>, 24>("S,3", rng, nops); break;
          case 2: vector_script<amc::FixedCapacityVector<SR, 8>, 8>("SR,fixed8", rng, nops); break;
          case 3: vector_script<amc::SmallVector<P, 5, std::allocator<P>, unsigned char>, 30>("P,5,u8", rng, nops); break;
          case 4: vector_script<amc::vector<SR, amc::allocator<SR>, unsigned short>, 30>("SR,u16", rng, nops); break;
          case 5: flatset_script<amc::FlatSet<int> >("int", rng, nops, 40); break;
          case 6: flatset_script<amc::FlatSet<S, std::greater<S>, amc::allocator<S>, amc::SmallVector<S, 4> > >("S,greater,small4", rng, nops, 40); break;
          case 7: flatset_script<amc::FlatSet<P, std::less<P>, amc::vec::EmptyAlloc, amc::FixedCapacityVector<P, 24> > >("P,fixed24", rng, nops, 24); break;
        }
      } else if (sec == 1) {
#ifdef AMC_CXX17
        if (h % 2 == 0) flatset_node_script<amc::FlatSet<int> >("int", rng, nops);
        else flatset_node_script<amc::FlatSet<S, std::less<S>, amc::allocator<S>, amc::SmallVector<S, 2> > >("S,small2", rng, nops);
#endif
      } else if (sec == 2) {
#ifdef AMC_NONSTD_FEATURES
        switch (h % 4) {
          case 0: extras_script<amc::vector<int>, amc::SmallVector<int, 4>, 40, 40>("int|int,4", rng, nops); break;
          case 1: extras_script<amc::SmallVector<S, 3>, amc::FixedCapacityVector<S, 6>, 30, 6>("S,3|S,fixed6", rng, nops); break;
          case 2: extras_script<amc::SmallVector<SR, 2>, amc::SmallVector<SR, 5>, 30, 30>("SR,2|SR,5", rng, nops); break;
          case 3: flatset_extras_script<amc::FlatSet<S> >("S", rng, nops / 2); break;
        }
#endif
      } else if (sec == 3) {
#ifdef AMC_SMALLSET
        switch (h % 3) {
          case 0: smallset_script<amc::SmallSet<int, 4> >("int,4", rng, nops); break;
          case 1: smallset_script<amc::SmallSet<S, 3, std::less<S>, amc::allocator<S>, amc::FlatSet<S, std::less<S>, amc::allocator<S> > > >("S,3,flat", rng, nops); break;
          case 2: smallset_script<amc::SmallSet<P, 2, std::greater<P>, std::allocator<P> > >("P,2,greater", rng, nops); break;
        }
#endif
      } else if (sec == 5) {
        switch (h % 3) {
          case 0: throwing_script<amc::vector<TH>, 30>("TH", rng, nops); break;
          case 1: throwing_script<amc::SmallVector<TH, 3>, 30>("TH,3", rng, nops); break;
          case 2: throwing_script<amc::FixedCapacityVector<TH, 8>, 8>("TH,fixed8", rng, nops); break;
        }
      } else if (h == from) {
        typedef amc::SmallVector<int, 4> V;
        typedef amc::FlatSet<int> F;
        put("pop_back_val=%ld append=%ld swap2=%ld\n", has_pop_back_val<V>::value, has_append_n<V>::value, has_swap2<V>::value);
        put("steal_vector=%ld fs_data=%ld fs_capacity=%ld", has_steal_vector<F>::value, has_fs_data<F>::value, has_fs_capacity<F>::value);
        put(" fs_index=%ld\n", has_fs_index<F>::value);
#ifdef AMC_SMALLSET
        put("smallset=1\n");
#else
        put("smallset=0\n");
#endif
      }
      fputs(g_out.c_str(), f);
    }
    fclose(f);
  }
  return 0;
}
