// C10: arguments referring to the vector's own elements behave as if copied first.  Complete small-scope grid.
// The including TU defines Elem, Vec, VF_CFG_NAME.  "history" index = form * 4 + spare-capacity mode.
#pragma once

#include "vec_grid_common.hpp"

namespace vf {

enum AliasForm { AF_PUSH = 0, AF_INSERT, AF_INSERT_N, AF_EMPLACE, AF_EMPLACE_PTR, AF_EMPLACE_BACK, AF_RESIZE, AF_ASSIGN, AF_APPEND, AF_EMPLACE_FIELDS, AF_EMPLACE_BACK_FIELDS, AF_N };
inline const char *afname(int f) {
  static const char *n[] = {"push_back(v[i])", "insert(pos,v[i])", "insert(pos,n,v[i])", "emplace(pos,v[i])", "emplace(pos,&v[i])", "emplace_back(v[i])",
                            "resize(n,v[i])", "assign(n,v[i])", "append(n,v[i])", "emplace(pos,v[i].key,v[i].pay)", "emplace_back(v[i].key,v[i].pay)"};
  return n[f];
}

template <class Vec>
struct AliasGrid : GridBase {
  typedef VecInfo<Vec> I;
  typedef typename I::elem E;
  typedef typename I::size_type SizeT;
  uintmax_t max_size = 6;
  uint64_t n_cells = 0, n_skipped = 0;

  void run(long idx) {
    int form = static_cast<int>(idx / 4), spare = static_cast<int>(idx % 4);
    begin_history(0, idx, 0xC10);
    for (uintmax_t size = 1; size <= max_size && !g_cut; ++size)
      for (uintmax_t pos = 0; pos <= size && !g_cut; ++pos)
        for (uintmax_t src = 0; src < size && !g_cut; ++src)
          for (uintmax_t count = 0; count <= 3 && !g_cut; ++count) {
            bool uses_pos = form == AF_INSERT || form == AF_INSERT_N || form == AF_EMPLACE || form == AF_EMPLACE_PTR || form == AF_EMPLACE_FIELDS;
            bool uses_count = form == AF_INSERT_N || form == AF_RESIZE || form == AF_ASSIGN || form == AF_APPEND;
            if ((form == AF_EMPLACE_FIELDS || form == AF_EMPLACE_BACK_FIELDS) && !FieldAlias<E>::kAvailable) continue;
            if (!uses_pos && pos != 0) continue;
            if (!uses_count && count != 1) continue;
            uintmax_t added = uses_count ? count : 1;
            // resulting size of the call
            uintmax_t result = form == AF_ASSIGN ? count + (size > 2 ? size - 2 : 0) : size + added;  // assign(n): n = count + size - 2 (both shrinking and growing)
            if (form == AF_RESIZE) result = size + count;
            uintmax_t want_cap = 0;
            if (spare == SP_GROW) want_cap = size;
            else if (spare == SP_EXACT) want_cap = std::max(result, size);
            else if (spare == SP_MORE) want_cap = std::max(result, size) + 3;
            if (I::kFixed) { if (spare != SP_NATURAL) continue; if (result > I::kN) continue; }
            if (result > I::limit()) continue;
            cell(form, spare, size, pos, src, count, result, want_cap);
          }
    // large sizes: an aliased element at an index that does not fit a signed 8-bit value (index arithmetic in the size_type)
    if (!I::kFixed && I::limit() >= 255) {
      uintmax_t bigs[] = {129, 200};
      for (uintmax_t size : bigs)
        for (uintmax_t pos : {static_cast<uintmax_t>(0), size / 2, size})
          for (uintmax_t src : {static_cast<uintmax_t>(0), static_cast<uintmax_t>(127), static_cast<uintmax_t>(128), size - 1})
            for (uintmax_t count = 1; count <= 2 && !g_cut; ++count) {
              bool uses_pos = form == AF_INSERT || form == AF_INSERT_N || form == AF_EMPLACE || form == AF_EMPLACE_PTR || form == AF_EMPLACE_FIELDS;
              bool uses_count = form == AF_INSERT_N || form == AF_RESIZE || form == AF_ASSIGN || form == AF_APPEND;
              if ((form == AF_EMPLACE_FIELDS || form == AF_EMPLACE_BACK_FIELDS) && !FieldAlias<E>::kAvailable) continue;
              if (!uses_pos && pos != 0) continue;
              if (!uses_count && count != 1) continue;
              if (spare == SP_NATURAL || spare == SP_MORE) continue;
              uintmax_t added = uses_count ? count : 1;
              uintmax_t result = form == AF_ASSIGN ? count + size - 2 : size + added;
              if (result > I::limit()) continue;
              uintmax_t want_cap = spare == SP_GROW ? size : std::max(result, size);
              cell(form, spare, size, pos, src, count, result, want_cap);
            }
    }
    if (!g_cut) end_history_ok();
  }

  void cell(int form, int spare, uintmax_t size, uintmax_t pos, uintmax_t src, uintmax_t count, uintmax_t result, uintmax_t want_cap) {
    Box<Vec> b;
    if (!build(b, size, want_cap)) { ++n_skipped; destroy(b); cell_end<E>("C10"); return; }
    Vec &v = *b.obj;
    std::vector<Val> &m = b.model;
    Snap before = snap(v);
    const bool grows = result > before.cap;
    set_op(afname(form), state_class<Vec>(before), std::string(src < pos ? "src<pos" : src == pos ? "src=pos" : "src>pos") + (grows ? ",grows" : ",fits") + (count == 0 ? ",c=0" : ""),
           fmt("size=%ju cap=%ju pos=%ju src=%ju count=%ju", size, before.cap, pos, src, count));
    ++n_cells;
    const Val x = m[src];  // the copy taken before the call
    long ret = -2, exp = -2;
    switch (form) {
      case AF_PUSH: window([&] { v.push_back(v[static_cast<SizeT>(src)]); }); m.push_back(x); break;
      case AF_INSERT: window([&] { auto it = v.insert(v.begin() + pos, v[static_cast<SizeT>(src)]); ret = it - v.begin(); }); m.insert(m.begin() + pos, x); exp = pos; break;
      case AF_INSERT_N: window([&] { auto it = v.insert(v.begin() + pos, static_cast<SizeT>(count), v[static_cast<SizeT>(src)]); ret = it - v.begin(); }); m.insert(m.begin() + pos, count, x); exp = pos; break;
      case AF_EMPLACE: window([&] { auto it = v.emplace(v.begin() + pos, v[static_cast<SizeT>(src)]); ret = it - v.begin(); }); m.insert(m.begin() + pos, x); exp = pos; break;
      case AF_EMPLACE_PTR: window([&] { auto it = v.emplace(v.begin() + pos, static_cast<const E *>(&v[static_cast<SizeT>(src)])); ret = it - v.begin(); }); m.insert(m.begin() + pos, x); exp = pos; break;
      case AF_EMPLACE_BACK: window([&] { v.emplace_back(v[static_cast<SizeT>(src)]); }); m.push_back(x); break;
      case AF_RESIZE: window([&] { v.resize(static_cast<SizeT>(result), v[static_cast<SizeT>(src)]); }); m.resize(result, x); break;
      case AF_ASSIGN: window([&] { v.assign(static_cast<SizeT>(result), v[static_cast<SizeT>(src)]); }); m.assign(result, x); break;
      case AF_APPEND: window([&] { v.append(static_cast<SizeT>(count), v[static_cast<SizeT>(src)]); }); m.insert(m.end(), count, x); break;
      case AF_EMPLACE_FIELDS: window([&] { ret = FieldAlias<E>::emplace(v, v.begin() + pos, src); }); m.insert(m.begin() + pos, x); exp = pos; break;
      case AF_EMPLACE_BACK_FIELDS: window([&] { FieldAlias<E>::emplace_back(v, src); }); m.push_back(x); break;
    }
    if (threw) violation("C10", "alias.unexpected_exception", fmt("aliased call threw %s", threw_what.c_str()));
    else {
      Snap after = snap(v);
      MonScope mm;
      if (after.sane && !same_vals(after.vals, m))
        violation("C10,C01", "alias.result_differs", fmt("result %s, expected (argument copied first) %s", vals_str(after.vals).c_str(), vals_str(m).c_str()));
      if (ret != exp) violation("C10,C01", "alias.returned_position", fmt("returned position %ld, expected %ld", ret, exp));
      if (EI<E>::kTracked && after.sane && g_live_lib != static_cast<long>(after.size)) violation("C10,C02", "ledger.live_vs_visible", fmt("%ld elements alive, %ju visible", g_live_lib, after.size));
    }
    (void)spare;
    destroy(b);
    cell_end<E>("C10,C02");
  }
};

}  // namespace vf

int main(int argc, char **argv) {
  using namespace vf;
  Args a;
  a.parse(argc, argv);
  install_malloc_hook();
  g_elem_relocatable = EI<Elem>::kRelocatable;
  static AliasGrid<Vec> eng;
  eng.max_size = a.has("--wide") ? 12 : 6;
  long total = AF_N * 4;
  long to = a.to < total ? a.to : total;
  long h = a.from;
  for (; h < to; ++h) {
    eng.run(h);
    if (g_cut) break;
  }
  eng.counters["cells"] = eng.n_cells;
  eng.counters["cells_state_not_formable"] = eng.n_skipped;
  eng.write_summary(VF_CFG_NAME, a.seed, a.from, g_cut ? h + 1 : h, a.to, true);
  if (g_cut) _exit(3);
  return 0;
}
