// Random operation histories over pools of FlatSets judged by std::set models (C03; also feeds C02, C06).
// The including TU defines: Elem, Cmp, Cmp2, VecT (underlying vector), VF_CFG_NAME.
#pragma once

#include <amc/flatset.hpp>

#include <algorithm>
#include <set>

#include "engine_base.hpp"
#include "gen/ranges.hpp"
#include "mon/cmp.hpp"
#include "vec_common.hpp"

namespace vf {

template <class S>
struct SetSlot {
  S *obj = nullptr;
  void *raw = nullptr;
};

template <class E, class Cmp, class Cmp2, class VecT>
struct FlatSetEngine : EngineBase {
  typedef typename VecT::allocator_type Alloc;
  typedef amc::FlatSet<E, Cmp, Alloc, VecT> Set;
  typedef amc::FlatSet<E, Cmp2, Alloc, VecT> Set2;
  typedef std::set<Val, Cmp> Model;
  typedef std::set<Val, Cmp2> Model2;
  static constexpr int NS = 3;
  static constexpr bool kFixedUnder = std::is_same<Alloc, amc::vec::EmptyAlloc>::value;
  static constexpr size_t kMaxSet = 40, kMaxRange = 24;

  Set *S[NS] = {nullptr, nullptr, nullptr};
  Model *M[NS] = {nullptr, nullptr, nullptr};
  Set2 *T = nullptr;
  Model2 *TM = nullptr;
  VecT *V = nullptr;  // spare vector
  std::vector<Val> VM;
  unsigned paycnt = 0;
  Cmp cmp{kHarnessOrigin};
  Cmp2 cmp2{kHarnessOrigin};
  long held_nodes = 0;
  bool reloc_mode = false;

  Val nv(int dom = 16) { return EI<E>::norm(Val(static_cast<int>(rng.below(dom)), ++paycnt)); }
  int other(int a) { int b = rng.below(NS - 1); return b >= a ? b + 1 : b; }

  template <class SetT>
  static std::vector<Val> seq(const SetT &s, std::vector<uint32_t> *serials = nullptr) {
    std::vector<Val> v;
    Snap sn;
    for (auto it = s.begin(); it != s.end(); ++it) {
      ElemProbe<E>::probe(*it, sn);
      v.push_back(EI<E>::val(*it));
      sn.vals.push_back(v.back());
    }
    if (serials) *serials = sn.serials;
    return v;
  }
  template <class ModelT>
  static std::vector<Val> mseq(const ModelT &m) { return std::vector<Val>(m.begin(), m.end()); }

  template <class SetT, class ModelT, class C>
  void verify_one(const SetT &s, const ModelT &m, const C &c, const char *nm, std::vector<uint32_t> &all, long &visible) {
    if (static_cast<size_t>(s.size()) > 100000) { violation("C03", "model.size_insane", "size() is absurd"); return; }
    std::vector<uint32_t> ser;
    std::vector<Val> got = seq(s, &ser), exp = mseq(m);
    visible += static_cast<long>(got.size());
    all.insert(all.end(), ser.begin(), ser.end());
    if (static_cast<size_t>(s.size()) != got.size()) violation("C03", "model.size_vs_iteration", fmt("%s: size() %zu but iteration visits %zu elements", nm, static_cast<size_t>(s.size()), got.size()));
    if (s.empty() != got.empty()) violation("C03", "model.empty", "empty() disagrees with iteration");
    for (size_t i = 1; i < got.size(); ++i)
      if (!c(got[i - 1], got[i])) {
        violation("C03", "order.not_strictly_increasing", fmt("%s: elements %zu and %zu are not in strictly increasing comparator order: %s", nm, i - 1, i, vals_str(got).c_str()));
        break;
      }
    if (!same_vals(got, exp)) violation("C03", "model.sequence", fmt("%s holds %s, std::set holds %s", nm, vals_str(got).c_str(), vals_str(exp).c_str()));
  }

  void verify() {
    MonScope m;
    std::vector<uint32_t> all;
    long visible = 0;
    for (int i = 0; i < NS; ++i) verify_one(*S[i], *M[i], M[i]->key_comp(), "S", all, visible);
    verify_one(*T, *TM, TM->key_comp(), "T", all, visible);
    // spare vector
    {
      Snap sn;
      take_snap(*V, sn);
      if (sn.sane) {
        visible += static_cast<long>(sn.size);
        all.insert(all.end(), sn.serials.begin(), sn.serials.end());
        if (!same_vals(sn.vals, VM)) violation("C03", "model.spare_vector", fmt("spare vector holds %s, expected %s", vals_str(sn.vals).c_str(), vals_str(VM).c_str()));
      }
    }
    if (g_cut) return;
    if (EI<E>::kTracked) {
      if (g_live_lib != visible) violation("C02,C09", "ledger.live_vs_visible", fmt("%ld element objects are alive but %ld are visible through the containers", g_live_lib, visible));
      std::sort(all.begin(), all.end());
      for (size_t i = 1; i < all.size(); ++i)
        if (all[i] == all[i - 1]) { violation("C02", "ledger.duplicate_identity", fmt("object #%u is visible twice", all[i])); break; }
    }
  }

  E *hold = nullptr;
  E *make_hold(Val v) { MonScope m; hold = new E(Mk<E>::make(v)); return hold; }
  void drop_hold() { MonScope m; delete hold; hold = nullptr; }

  template <class X> static void adopt(const X &) {}
  template <int K, int P> static void adopt(const Tracked<K, P> &t) { ledger_adopt(t); }

  std::vector<Val> gen_vals(size_t n, int dom) { std::vector<Val> v; for (size_t i = 0; i < n; ++i) v.push_back(nv(dom)); return v; }

  template <class F>
  void with_il(const std::vector<Val> &vals, F &&f) {
    switch (vals.size()) {
      case 0: { std::initializer_list<E> il = {}; f(il); break; }
      case 1: { g_monitor_depth++; std::initializer_list<E> il = {Mk<E>::make(vals[0])}; g_monitor_depth--; f(il); g_monitor_depth++; }
        g_monitor_depth--; break;
      case 2: { g_monitor_depth++; std::initializer_list<E> il = {Mk<E>::make(vals[0]), Mk<E>::make(vals[1])}; g_monitor_depth--; f(il); g_monitor_depth++; }
        g_monitor_depth--; break;
      default: { g_monitor_depth++; std::initializer_list<E> il = {Mk<E>::make(vals[0]), Mk<E>::make(vals[1]), Mk<E>::make(vals[2])}; g_monitor_depth--; f(il); g_monitor_depth++; }
        g_monitor_depth--; break;
    }
  }

  static const char *szcls(size_t n) { return n == 0 ? "empty" : n < 4 ? "small" : n <= 16 ? "mid" : "big"; }
  std::string st(int i) { return szcls(M[i]->size()); }
  // bounded underlying vector (FixedCapacityVector): single insertions stay within its capacity; merges are allowed to run into it (see op_pair)
  template <class V_ = VecT> static typename std::enable_if<std::is_same<typename V_::allocator_type, amc::vec::EmptyAlloc>::value, size_t>::type under_capacity() { return static_cast<size_t>(VecInfo<V_>::kN); }
  template <class V_ = VecT> static typename std::enable_if<!std::is_same<typename V_::allocator_type, amc::vec::EmptyAlloc>::value, size_t>::type under_capacity() { return 1000000; }
  size_t max_set() const { return std::min<size_t>(kMaxSet, under_capacity()); }
  size_t room(int i) { return max_set() > M[i]->size() ? max_set() - M[i]->size() : 0; }
  // A merge whose result would not fit the bounded underlying vector: the vector throws std::out_of_range in the middle of the merge. std::set has no
  // such limit, so the model cannot say what the sets hold afterwards; what must still hold (C02, C09-like): every visible element alive and not
  // moved-from, both sets strictly ordered, no element lost or duplicated (the multiset of (key, payload) over both sets is unchanged).
  template <class SetX, class ModelX>
  bool overflowing_merge_after(Set &dst, Model &md, SetX &src, ModelX &msrc, const std::vector<Val> &before_all) {
    if (!threw) { violation("C03,C08", "merge.no_exception_beyond_capacity", "the merged set cannot fit the underlying FixedCapacityVector but merge did not throw"); return false; }
    if (threw_what.find("out_of_range") == std::string::npos) { violation("C03,C08", "merge.wrong_exception", fmt("merge beyond the fixed capacity threw %s", threw_what.c_str())); return false; }
    MonScope mm;
    std::vector<Val> a = seq(dst), b = seq(src);  // probes every element (alive, not moved-from)
    if (g_cut) return false;
    std::vector<Val> all(a);
    all.insert(all.end(), b.begin(), b.end());
    std::vector<Val> want(before_all);
    auto lessv = [](const Val &x, const Val &y) { return x.key != y.key ? x.key < y.key : x.pay < y.pay; };
    std::sort(all.begin(), all.end(), lessv);
    std::sort(want.begin(), want.end(), lessv);
    if (!same_vals(all, want)) { violation("C02,C03", "merge.elements_lost_or_duplicated_by_failed_merge", fmt("both sets together held %s before the failed merge, %s after", vals_str(want).c_str(), vals_str(all).c_str())); return false; }
    // resynchronise the models with what the sets hold now (order and uniqueness are then judged by verify())
    md.clear();
    md.insert(a.begin(), a.end());
    msrc.clear();
    msrc.insert(b.begin(), b.end());
    if (md.size() != a.size() || msrc.size() != b.size()) { violation("C03", "merge.equivalent_duplicates_after_failed_merge", "a set holds two equivalent elements after the failed merge"); return false; }
    ++counters["merges_beyond_fixed_capacity"];
    return true;
  }

  template <class It>
  long idx(const Set &s, It it) { return static_cast<long>(it - s.begin()); }
  long midx(const Model &m, typename Model::const_iterator it) { return static_cast<long>(std::distance(m.begin(), it)); }

  void check_pos(const char *what, long got, long exp) {
    if (got != exp) violation("C03,C12", "model.returned_position", fmt("%s: returned position %ld, std::set gives %ld", what, got, exp));
  }

  // ------------------------------------------------------------------ operations
  void op_insert(int a) {
    Set &s = *S[a];
    Model &m = *M[a];
    int form = rng.below(8);
    bool present_bias = rng.chance(1, 3) && !m.empty();
    Val x = nv();
    if (present_bias) { auto it = m.begin(); std::advance(it, rng.below(static_cast<uint32_t>(m.size()))); x.key = it->key; x = EI<E>::norm(x); }
    if (room(a) == 0 && form != 7) return;
    bool present = m.count(x) != 0;
    const std::string ac = present ? "present" : "absent";
    long got = -1;
    bool ins = false;
    switch (form) {
      case 0: {
        if (!EI<E>::kCopyable) return;
        set_op("insert(const&)", st(a), ac, fmt("S%d %d.%u", a, x.key, x.pay));
        E *e = make_hold(x);
        window([&] { auto r = s.insert(*e); got = idx(s, r.first); ins = r.second; });
        drop_hold();
        break;
      }
      case 1: {
        set_op("insert(&&)", st(a), ac, fmt("S%d %d.%u", a, x.key, x.pay));
        E *e = make_hold(x);
        window([&] { auto r = s.insert(std::move(*e)); got = idx(s, r.first); ins = r.second; });
        drop_hold();
        break;
      }
      case 2:
      case 3:
      case 5: {
        if (form == 2 && !EI<E>::kCopyable) return;
        size_t h = rng.below(static_cast<uint32_t>(m.size() + 1));
        long lb = midx(m, m.lower_bound(x));
        std::string hc = static_cast<long>(h) == lb ? "hint=lb" : static_cast<long>(h) < lb ? "hint<lb" : "hint>lb";
        set_op(form == 2 ? "insert(hint,const&)" : form == 3 ? "insert(hint,&&)" : "emplace_hint", st(a), ac + "," + hc, fmt("S%d hint=%zu %d.%u", a, h, x.key, x.pay));
        size_t before = m.size();
        if (form == 5 && rng.chance(1, 3)) {
          Proto pr; pr.key = x.key; pr.pay = x.pay; pr.half = 1;
          window([&] { got = idx(s, s.emplace_hint(s.begin() + h, pr)); });
        } else if (form == 5) {
          window([&] { got = idx(s, Emp<VecT>::hint(s, s.begin() + h, x)); });
        } else {
          E *e = make_hold(x);
          if (form == 2) window([&] { got = idx(s, s.insert(s.begin() + h, *e)); });
          else window([&] { got = idx(s, s.insert(s.begin() + h, std::move(*e))); });
          drop_hold();
        }
        (void)before;
        ins = !present;
        break;
      }
      case 4: {
        if (rng.chance(1, 3)) {
          // a single argument of another type that converts to the element
          set_op("emplace(value of another type)", st(a), ac, fmt("S%d %d.%u", a, x.key, x.pay));
          Proto pr; pr.key = x.key; pr.pay = x.pay; pr.half = 1;
          window([&] { auto r = s.emplace(pr); got = idx(s, r.first); ins = r.second; });
          break;
        }
        set_op("emplace", st(a), ac, fmt("S%d %d.%u", a, x.key, x.pay));
        window([&] { auto r = Emp<VecT>::set(s, x); got = idx(s, r.first); ins = r.second; });
        break;
      }
      case 6: {  // range / il
        bool il = rng.chance(1, 4) && EI<E>::kCopyable;
        bool bulk = rng.chance(1, 4);
        size_t n = il ? rng.below(4) : std::min<size_t>(bulk ? 17 + rng.below(8) : rng.below(8), std::min(kMaxRange, room(a)));
        if (il) n = std::min(n, room(a));
        std::vector<Val> vals = gen_vals(n, bulk ? 40 : 16);
        int kind = EI<E>::kCopyable ? rng.below(RK_N + 1) : RK_MOVE;
        if (!il && kind == RK_MSET) multiset_order(vals);
        if (il) {
          set_op("insert(il)", st(a), fmt("n=%zu", n), fmt("S%d %s", a, vals_str(vals).c_str()));
          with_il(vals, [&](std::initializer_list<E> l) { window([&] { s.insert(l); }); });
        } else {
          set_op("insert(range)", st(a), std::string(rkname(kind)) + (n > 16 ? ",n>16" : n == 0 ? ",n=0" : ",n<=16"), fmt("S%d %s %s", a, rkname(kind), vals_str(vals).c_str()));
          with_range<E>(kind, vals, [&](auto f, auto l) { window([&] { s.insert(f, l); }); });
        }
        if (threw) { violation("C03", "model.unexpected_exception", threw_what); return; }
        MonScope mm;
        m.insert(vals.begin(), vals.end());
        verify();
        return;
      }
      case 7: {
        op_node(a);
        return;
      }
    }
    if (threw) { violation("C03", "model.unexpected_exception", threw_what); return; }
    MonScope mm;
    auto r = m.insert(x);
    if (form != 2 && form != 3 && form != 5 && ins != r.second) violation("C03", "model.insert_bool", fmt("insertion flag %d, std::set gives %d", ins, r.second));
    check_pos("insert", got, midx(m, r.first));
    verify();
  }

  // extract + insert(node)
  void op_node(int a) {
    int b = rng.chance(1, 3) ? a : other(a);
    Set &src = *S[b];
    Model &ms = *M[b];
    if (ms.empty()) return;
    // extract(position) does not compile for a std::vector underlying container (const_cast of a class-type iterator): by key only there
    bool bykey = rng.chance(1, 2) || !std::is_pointer<typename Set::const_iterator>::value;
    bool absent = bykey && rng.chance(1, 4);
    size_t pi = rng.below(static_cast<uint32_t>(ms.size()));
    auto mit = ms.begin();
    std::advance(mit, pi);
    Val want = *mit;
    Val keyv = want;
    if (absent) {
      // a key that is really absent after normalisation to the element type (narrow element types fold large keys)
      absent = false;
      for (int k = 0; k < 60 && !absent; ++k) {
        Val cand = EI<E>::norm(Val(k == 0 ? 99 : k, 0));
        MonScope mm;
        if (ms.count(cand) == 0) { keyv = cand; absent = true; }
      }
    }
    set_op(bykey ? "extract(key)" : "extract(pos)", st(b), absent ? "absent" : "present", fmt("S%d key=%d", b, keyv.key));
    typename Set::node_type *nh = nullptr;
    {
      MonScope mm;
      nh = new typename Set::node_type();
    }
    E *e = make_hold(keyv);
    window([&] {
      if (bykey) *nh = src.extract(*e);
      else extract_pos(src, pi, *nh);
    });
    drop_hold();
    if (threw) { violation("C03", "model.unexpected_exception", threw_what); return; }
    {
      MonScope mm;
      if (absent) {
        if (!nh->empty()) violation("C03", "node.extract_absent", "extract of an absent key returned a non-empty node");
      } else {
        if (nh->empty() || !static_cast<bool>(*nh)) violation("C03", "node.extract_empty", "extract of a present element returned an empty node");
        else {
          if (!EI<E>::val(nh->value()).same(want)) violation("C03", "node.extract_value", "extracted node holds another value");
          adopt(nh->value());
          // node_type::swap with an empty node and back, get_allocator
          typename Set::node_type other;
          nh->swap(other);
          if (!nh->empty() || other.empty()) violation("C03", "node.swap", "node_type::swap did not exchange the values");
          other.swap(*nh);
          if (nh->empty() || !EI<E>::val(nh->value()).same(want)) violation("C03", "node.swap", "node_type::swap lost the value");
          (void)nh->get_allocator();
        }
        ms.erase(mit);
      }
      verify();
    }
    if (g_cut) { MonScope mm; return; }
    // insert the node somewhere
    Set &dst = *S[a];
    Model &md = *M[a];
    bool hinted = rng.chance(1, 3);
    bool had = !nh->empty();
    Val nval = had ? want : Val();
    bool present = had && md.count(nval) != 0;
    if (had && !present && room(a) == 0) { MonScope mm; delete nh; verify(); return; }  // the destination (bounded underlying vector) is full
    size_t h = rng.below(static_cast<uint32_t>(md.size() + 1));
    set_op(hinted ? "insert(hint,node)" : "insert(node)", st(a), !had ? "empty-node" : present ? "present" : "absent", fmt("S%d <- node %d.%u", a, nval.key, nval.pay));
    long got = -1;
    bool ins = false, node_empty_after = true;
    Val node_val_after;
    window([&] {
      if (hinted) {
        auto it = dst.insert(dst.begin() + h, std::move(*nh));
        got = idx(dst, it);
      } else {
        auto r = dst.insert(std::move(*nh));
        got = idx(dst, r.position);
        ins = r.inserted;
        g_in_call = false;
        MonScope mm;
        // the returned node takes over what was not inserted
        node_empty_after = r.node.empty();
        if (!node_empty_after) { node_val_after = EI<E>::val(r.node.value()); adopt(r.node.value()); }
        *nh = std::move(r.node);
        if (!nh->empty()) adopt(nh->value());
      }
    });
    if (threw) { violation("C03", "model.unexpected_exception", threw_what); MonScope mm; delete nh; return; }
    {
      MonScope mm;
      if (hinted) {
        node_empty_after = nh->empty();
        if (!node_empty_after) { node_val_after = EI<E>::val(nh->value()); adopt(nh->value()); }
      }
      if (!had) {
        if (!hinted && ins) violation("C03", "node.insert_empty", "insert of an empty node reports inserted");
        if (got != static_cast<long>(md.size())) violation("C03", "node.insert_empty_pos", "insert of an empty node must return end()");
      } else {
        auto r = md.insert(nval);
        if (!hinted && ins != r.second) violation("C03", "model.insert_bool", "insert(node) flag differs from std::set");
        check_pos("insert(node)", got, midx(md, r.first));
        if (r.second) {
          if (!node_empty_after) violation("C03", "node.not_empty_after_insert", "node still owns a value after a successful insert");
          // the element now lives in the set (it was move-constructed there): nothing to disown
        } else {
          if (node_empty_after) violation("C03", "node.lost_value", "insert(node) met an equivalent element and the node no longer owns its value");
          else if (!node_val_after.same(nval)) violation("C03", "node.value_changed", "node value changed by a failed insert(node)");
        }
      }
      delete nh;  // destroys what it still owns (harness-held)
      verify();
    }
  }

  template <class S_ = Set>
  static typename std::enable_if<std::is_pointer<typename S_::const_iterator>::value>::type extract_pos(S_ &src, size_t pi, typename S_::node_type &nh) { nh = src.extract(src.begin() + pi); }
  template <class S_ = Set>
  static typename std::enable_if<!std::is_pointer<typename S_::const_iterator>::value>::type extract_pos(S_ &, size_t, typename S_::node_type &) {}

  void op_erase(int a) {
    Set &s = *S[a];
    Model &m = *M[a];
    int form = rng.below(4);
    switch (form) {
      case 0: {
        Val k = nv();
        bool present = m.count(k) != 0;
        set_op("erase(key)", st(a), present ? "present" : "absent", fmt("S%d key=%d", a, k.key));
        size_t r = 99;
        if (present && rng.chance(1, 3)) {
          // the key is a reference to the element of the set itself (as std::set allows): it dies during the call
          set_op("erase(key)", st(a), "own-element", fmt("S%d key=%d", a, k.key));
          const E *own = nullptr;
          { MonScope mm; const Set &cs0 = s; for (auto it = cs0.begin(); it != cs0.end(); ++it) if (!m.key_comp()(EI<E>::val(*it), k) && !m.key_comp()(k, EI<E>::val(*it))) { own = &*it; break; } }
          if (!own) { violation("C03", "model.contents", "an element of the model is not in the set"); return; }
          window([&] { r = s.erase(*own); });
        } else {
          E *e = make_hold(k);
          window([&] { r = s.erase(*e); });
          drop_hold();
        }
        MonScope mm;
        size_t er = m.erase(k);
        if (!threw && r != er) violation("C03", "model.erase_count", fmt("erase(key) returned %zu, std::set %zu", r, er));
        break;
      }
      case 1: {
        if (m.empty()) return;
        size_t p = rng.below(static_cast<uint32_t>(m.size()));
        set_op("erase(pos)", st(a), p + 1 == m.size() ? "last" : p == 0 ? "first" : "mid", fmt("S%d pos=%zu", a, p));
        long got = -1;
        window([&] { got = idx(s, s.erase(s.begin() + p)); });
        MonScope mm;
        auto it = m.begin();
        std::advance(it, p);
        it = m.erase(it);
        if (!threw) check_pos("erase(pos)", got, midx(m, it));
        break;
      }
      case 2: {
        size_t f = rng.below(static_cast<uint32_t>(m.size() + 1));
        size_t l = f + rng.below(static_cast<uint32_t>(m.size() - f + 1));
        set_op("erase(first,last)", st(a), f == l ? "empty" : "nonempty", fmt("S%d [%zu,%zu)", a, f, l));
        long got = -1;
        g_selfmove_poison = true;  // see smallset_main.hpp
        window([&] { got = idx(s, s.erase(s.begin() + f, s.begin() + l)); });
        g_selfmove_poison = false;
        MonScope mm;
        auto i1 = m.begin(), i2 = m.begin();
        std::advance(i1, f);
        std::advance(i2, l);
        auto it = m.erase(i1, i2);
        if (!threw) check_pos("erase(range)", got, midx(m, it));
        break;
      }
      case 3: {
#if __cplusplus >= 202002L
        if (rng.chance(1, 2)) {
          int md = 2 + static_cast<int>(rng.below(3)), rm = static_cast<int>(rng.below(2));
          set_op("erase_if", st(a), "-", fmt("S%d key%%%d==%d", a, md, rm));
          size_t r = 0;
          window([&] { r = erase_if(s, [md, rm](const E &e) { return key_of(e) % md == rm; }); });
          MonScope mm;
          size_t er = 0;
          for (auto it = m.begin(); it != m.end();) if (it->key % md == rm) { it = m.erase(it); ++er; } else ++it;
          if (!threw && r != er) violation("C03", "model.erase_if_count", fmt("erase_if returned %zu, expected %zu", r, er));
          break;
        }
#endif
        set_op("clear", st(a), "-", fmt("S%d", a));
        window([&] { s.clear(); });
        MonScope mm;
        m.clear();
        break;
      }
    }
    if (threw) { violation("C03", "model.unexpected_exception", threw_what); return; }
    verify();
  }

  template <class C = Cmp>
  typename std::enable_if<CmpTransparent<C>::value>::type hetero(const Set &s, const Model &m, int k) {
    long f = -1, lb = -1, ub = -1;
    bool c = false;
    size_t cnt = 0;
    window([&] {
      f = idx(s, s.find(k));
      c = s.contains(k);
      cnt = s.count(k);
      lb = idx(s, s.lower_bound(k));
      ub = idx(s, s.upper_bound(k));
    });
    MonScope mm;
    if (threw) return;
    if (f != midx(m, m.find(k)) || c != (m.count(k) != 0) || cnt != m.count(k) || lb != midx(m, m.lower_bound(k)) || ub != midx(m, m.upper_bound(k)))
      violation("C03", "model.heterogeneous_lookup", fmt("heterogeneous lookup of %d disagrees with std::set", k));
  }
  // a heterogeneous key equivalent to a run of several elements (std::set: count = length of the run, find = any element of it)
  template <class C = Cmp>
  typename std::enable_if<CmpTransparent<C>::value>::type hetero_run(const Set &s, const Model &m, int c2, int a) {
    HalfKey hk(c2);
    {
      size_t run = 0;
      { MonScope mm; run = m.count(hk); }
      set_op("lookup(hetero-run)", st(a), run == 0 ? "absent" : run == 1 ? "run=1" : "run>1", fmt("S%d key/2=%d", a, c2));
    }
    long f = -1, lb = -1, ub = -1;
    bool c = false;
    size_t cnt = 0;
    window([&] {
      f = idx(s, s.find(hk));
      c = s.contains(hk);
      cnt = s.count(hk);
      lb = idx(s, s.lower_bound(hk));
      ub = idx(s, s.upper_bound(hk));
    });
    MonScope mm;
    if (threw) return;
    long mlb = midx(m, m.lower_bound(hk)), mub = midx(m, m.upper_bound(hk));
    size_t mc = m.count(hk);
    bool found_ok = mc == 0 ? f == static_cast<long>(m.size()) : (f >= mlb && f < mub);
    if (!found_ok || c != (mc != 0) || cnt != mc || lb != mlb || ub != mub)
      violation("C03", "model.heterogeneous_lookup", fmt("lookup of a heterogeneous key equivalent to %zu elements [%ld,%ld): find at %ld, contains %d, count %zu, bounds [%ld,%ld)", mc, mlb, mub, f, c, cnt, lb, ub));
  }
  template <class C = Cmp>
  typename std::enable_if<!CmpTransparent<C>::value>::type hetero_run(const Set &, const Model &, int, int) {}
  template <class C = Cmp>
  typename std::enable_if<!CmpTransparent<C>::value>::type hetero(const Set &, const Model &, int) {}

  void op_lookup(int a) {
    const Set &s = *S[a];
    Model &m = *M[a];
    Val k = nv();
    if (rng.chance(1, 8)) k = EI<E>::norm(Val(rng.chance(1, 2) ? -1 : 99, 0));
    bool present = m.count(k) != 0;
    set_op("lookup", st(a), present ? "present" : "absent", fmt("S%d key=%d", a, k.key));
    E *e = make_hold(k);
    long f = -1, lb = -1, ub = -1, e1 = -1, e2 = -1;
    bool c = false;
    size_t cnt = 0;
    window([&] {
      f = idx(s, s.find(*e));
      c = s.contains(*e);
      cnt = s.count(*e);
      lb = idx(s, s.lower_bound(*e));
      ub = idx(s, s.upper_bound(*e));
      auto er = s.equal_range(*e);
      e1 = idx(s, er.first);
      e2 = idx(s, er.second);
    });
    drop_hold();
    {
      MonScope mm;
      if (threw) { violation("C03", "model.unexpected_exception", threw_what); return; }
      long mf = midx(m, m.find(k)), mlb = midx(m, m.lower_bound(k)), mub = midx(m, m.upper_bound(k));
      if (f != mf) violation("C03", "model.find", fmt("find(%d) at %ld, std::set at %ld", k.key, f, mf));
      if (c != present || cnt != (present ? 1u : 0u)) violation("C03", "model.contains_count", fmt("contains/count(%d) = %d/%zu", k.key, c, cnt));
      if (lb != mlb) violation("C03", "model.lower_bound", fmt("lower_bound(%d) at %ld, std::set at %ld", k.key, lb, mlb));
      if (ub != mub) violation("C03", "model.upper_bound", fmt("upper_bound(%d) at %ld, std::set at %ld", k.key, ub, mub));
      // equal_range: the same, possibly empty, run of elements
      if (present) { if (e1 != mlb || e2 != mub) violation("C03", "model.equal_range", fmt("equal_range(%d) = [%ld,%ld), std::set [%ld,%ld)", k.key, e1, e2, mlb, mub)); }
      else if (e1 != e2) violation("C03", "model.equal_range", fmt("equal_range of an absent key delimits a non-empty run [%ld,%ld)", e1, e2));
    }
    if (CmpTransparent<Cmp>::value) {
      set_op("lookup(hetero)", st(a), present ? "present" : "absent", fmt("S%d key=%d", a, k.key));
      hetero(s, m, k.key);
      if (g_cut) return;
      hetero_run(s, m, k.key >> 1, a);
    }
    // observers: key_comp()/value_comp() must be copies of the stored comparator (provenance), iterators agree, max_size
    if (rng.chance(1, 4)) {
      set_op("observers", st(a), "-", fmt("S%d", a));
      bool okc = true;
      E *e1 = make_hold(EI<E>::norm(Val(3, 1)));
      E *e2;
      { MonScope mm; e2 = new E(Mk<E>::make(EI<E>::norm(Val(7, 2)))); }
      bool kc = false, vc = false, want = false;
      window([&] {
        kc = s.key_comp()(*e1, *e2);
        vc = s.value_comp()(*e1, *e2);
        unsigned long c1 = 0, c2 = 0, r1 = 0, r2 = 0;
        for (auto it = s.cbegin(); it != s.cend(); ++it) c1 = c1 * 31u + static_cast<unsigned long>(key_of(*it));
        for (auto it = s.begin(); it != s.end(); ++it) c2 = c2 * 31u + static_cast<unsigned long>(key_of(*it));
        for (auto it = s.crbegin(); it != s.crend(); ++it) r1 += static_cast<unsigned long>(key_of(*it));
        for (auto it = s.rbegin(); it != s.rend(); ++it) r2 += static_cast<unsigned long>(key_of(*it));
        okc = c1 == c2 && r1 == r2 && static_cast<size_t>(s.max_size()) >= static_cast<size_t>(s.size());
        (void)s.get_allocator();
      });
      {
        MonScope mm;
        want = m.key_comp()(Val(3, 1), Val(7, 2));
        delete e2;
        if (!threw && (kc != want || vc != want)) violation("C03", "model.key_comp", "key_comp()/value_comp() do not order like the comparator the set was constructed with");
        if (!threw && !okc) violation("C03", "model.observers_disagree", "c-prefixed / reverse iterators or max_size disagree");
      }
      drop_hold();
    }
    // element access extras
    if (!m.empty() && rng.chance(1, 3)) {
      set_op("access", st(a), "-", fmt("S%d", a));
      Val fr, bk, at0;
      size_t i = rng.below(static_cast<uint32_t>(m.size()));
      size_t rcount = 0;
      window([&] {
        fr = EI<E>::val(s.front());
        bk = EI<E>::val(s.back());
        at0 = EI<E>::val(s[static_cast<typename Set::size_type>(i)]);
        for (auto it = s.rbegin(); it != s.rend(); ++it) ++rcount;
      });
      // at(i), data(); at(size()) and at(max of the size_type) must throw std::out_of_range
      Val ati, dti;
      bool at_end_threw = false, at_max_threw = false, data_is_begin = false;
      const Set &csr = s;
      window([&] {
        ati = EI<E>::val(csr.at(static_cast<typename Set::size_type>(i)));
        dti = EI<E>::val(csr.data()[i]);
        data_is_begin = csr.data() == &*csr.begin();
      });
      const bool acc_threw = threw;
      window([&] { (void)csr.at(csr.size()); });
      at_end_threw = threw && threw_what.find("out_of_range") != std::string::npos;
      window([&] { (void)csr.at(std::numeric_limits<typename Set::size_type>::max()); });
      at_max_threw = threw && threw_what.find("out_of_range") != std::string::npos;
      threw = false;
      MonScope mm;
      auto it = m.begin();
      std::advance(it, i);
      if (!threw && (!fr.same(*m.begin()) || !bk.same(*m.rbegin()) || !at0.same(*it) || rcount != m.size())) violation("C03", "model.element_access", "front/back/operator[]/reverse iteration disagree with std::set");
      if (acc_threw || !ati.same(*it) || !dti.same(*it) || !data_is_begin) violation("C03", "model.element_access", "at(i) / data()[i] disagree with the i-th element of std::set");
      if (!at_end_threw || !at_max_threw) violation("C03", "model.element_access", "at(size()) / at(max) did not throw std::out_of_range");
    }
    verify();
  }

  void op_pair(int a) {
    int b = other(a);
    Set &s = *S[a], &o = *S[b];
    Model &m = *M[a], &mo = *M[b];
    int form = rng.below(8);
    const std::string sts = st(a) + "|" + st(b);
    switch (form) {
      case 0: {
        if (m.size() + mo.size() > kMaxSet + 24) return;
        size_t uni;
        std::vector<Val> before_all;
        { MonScope mm; Model t(m); t.insert(mo.begin(), mo.end()); uni = t.size(); before_all.assign(m.begin(), m.end()); before_all.insert(before_all.end(), mo.begin(), mo.end()); }
        const bool overflow = uni > under_capacity();
        set_op("merge(same)", sts, overflow ? "beyond-fixed-capacity" : "-", fmt("S%d <- S%d", a, b));
        window([&] { s.merge(o); });
        if (overflow) { if (!overflowing_merge_after(s, m, o, mo, before_all)) return; threw = false; break; }
        MonScope mm;
        m.merge(mo);
        break;
      }
      case 1: {
        if (m.size() + TM->size() > kMaxSet + 24) return;
        size_t uni;
        std::vector<Val> before_all;
        { MonScope mm; Model t(m); t.insert(TM->begin(), TM->end()); uni = t.size(); before_all.assign(m.begin(), m.end()); before_all.insert(before_all.end(), TM->begin(), TM->end()); }
        const bool overflow = uni > under_capacity();
        set_op("merge(other-compare)", st(a) + "|" + szcls(TM->size()), overflow ? "beyond-fixed-capacity" : "-", fmt("S%d <- T", a));
        window([&] { s.merge(*T); });
        if (overflow) { if (!overflowing_merge_after(s, m, *T, *TM, before_all)) return; threw = false; break; }
        MonScope mm;
        m.merge(*TM);
        break;
      }
      case 2: {
        set_op("swap", sts, "-", fmt("S%d <-> S%d", a, b));
        if (rng.chance(1, 2)) window([&] { s.swap(o); });
        else window([&] { using std::swap; swap(s, o); });
        MonScope mm;
        m.swap(mo);
        break;
      }
      case 3: {
        if (!EI<E>::kCopyable) return;
        set_op("operator=(const&)", sts, "-", fmt("S%d = S%d", a, b));
        window([&] { s = o; });
        MonScope mm;
        m = mo;
        break;
      }
      case 4: {
        set_op("operator=(&&)", sts, "-", fmt("S%d = move(S%d)", a, b));
        window([&] { s = std::move(o); });
        if (threw) break;
        { MonScope mm; m = mo; mo.clear(); }
        // a moved-from set is valid but unspecified: bring it to a known state
        window([&] { o.clear(); });
        break;
      }
      case 5: {
        set_op("compare", sts, "-", fmt("S%d ? S%d", a, b));
        bool r[6] = {0, 0, 0, 0, 0, 0};
        window([&] {
          const Set &x = s, &y = o;
          r[0] = x == y; r[1] = x != y; r[2] = x < y; r[3] = x <= y; r[4] = x > y; r[5] = x >= y;
        });
        MonScope mm;
        bool e[6] = {m == mo, m != mo, m < mo, m <= mo, m > mo, m >= mo};
        for (int i = 0; i < 6; ++i)
          if (!threw && r[i] != e[i]) { violation("C03", "model.comparison", fmt("comparison #%d gives %d, std::set gives %d", i, r[i], e[i])); break; }
        break;
      }
      case 6: {  // copy / move construction replaces S[a]
        bool mv = rng.chance(1, 2) || !EI<E>::kCopyable;
        set_op(mv ? "ctor(move)" : "ctor(copy)", st(b), "-", fmt("S%d from S%d", a, b));
        window([&] { s.~Set(); });
        if (mv) window([&] { new (S[a]) Set(std::move(o)); });
        else window([&] { new (S[a]) Set(o); });
        if (threw) break;
        { MonScope mm; m = mo; if (mv) mo.clear(); }
        if (mv) window([&] { o.clear(); });
        break;
      }
      case 7: {
        op_vector(a);
        return;
      }
    }
    if (threw) { violation("C03", "model.unexpected_exception", threw_what); return; }
    verify();
  }

  void fill_spare() {
    bool bulk = rng.chance(1, 3);
    size_t n = std::min<size_t>(std::min<size_t>(bulk ? 17 + rng.below(8) : rng.below(9), kMaxRange), under_capacity());
    std::vector<Val> vals = gen_vals(n, bulk ? 40 : 12);
    set_op("spare:assign", szcls(VM.size()), n > 16 ? "n>16" : "n<=16", vals_str(vals));
    with_range<E>(RK_MOVE, vals, [&](auto f, auto l) { window([&] { V->assign(f, l); }); });
    VM = vals;
  }
  Model model_from(const std::vector<Val> &vals, const Cmp &c) {
    Model r(c);
    r.insert(vals.begin(), vals.end());
    return r;
  }

  void op_vector(int a) {
    Set &s = *S[a];
    Model &m = *M[a];
    int form = rng.below(6);
    switch (form) {
      case 0: {  // FlatSet(vector&&, comp)
        fill_spare();
        if (threw) break;
        set_op("ctor(vector&&)", szcls(VM.size()), VM.size() > 16 ? "n>16" : "n<=16", fmt("S%d", a));
        window([&] { s.~Set(); });
        Cmp cv = CmpVariant<Cmp>::make(static_cast<int>(rng.below(2)));
        window([&] { new (S[a]) Set(std::move(*V), cv); });
        if (threw) break;
        { MonScope mm; m = model_from(VM, cv); VM.clear(); }
        window([&] { V->clear(); });
        break;
      }
      case 1: {
        fill_spare();
        if (threw) break;
        set_op("operator=(vector&&)", st(a) + "|" + szcls(VM.size()), VM.size() > 16 ? "n>16" : "n<=16", fmt("S%d", a));
        window([&] { s = std::move(*V); });
        if (threw) break;
        { MonScope mm; m = model_from(VM, m.key_comp()); VM.clear(); }  // assignment from a vector keeps the set's own comparator
        window([&] { V->clear(); });
        break;
      }
      case 2: {
        set_op("steal_vector", st(a), "-", fmt("S%d", a));
        window([&] { V->~VecT(); });
        window([&] { new (V) VecT(s.steal_vector()); });
        MonScope mm;
        VM = mseq(m);
        m.clear();
        break;
      }
      case 3: {  // range constructor / il constructor
        bool il = rng.chance(1, 3) && EI<E>::kCopyable;
        bool bulk = rng.chance(1, 3);
        size_t n = il ? rng.below(4) : std::min<size_t>(std::min<size_t>(bulk ? 17 + rng.below(8) : rng.below(9), kMaxRange), under_capacity());
        std::vector<Val> vals = gen_vals(n, bulk ? 40 : 12);
        int kind = EI<E>::kCopyable ? rng.below(RK_N) : RK_MOVE;
        set_op(il ? "ctor(il)" : "ctor(range)", "-", (il ? std::string("il") : std::string(rkname(kind))) + (n > 16 ? ",n>16" : ",n<=16"), fmt("S%d %s", a, vals_str(vals).c_str()));
        window([&] { s.~Set(); });
        Cmp cv = CmpVariant<Cmp>::make(static_cast<int>(rng.below(2)));
        if (il) with_il(vals, [&](std::initializer_list<E> l) { window([&] { new (S[a]) Set(l, cv); }); });
        else with_range<E>(kind, vals, [&](auto f, auto l) { window([&] { new (S[a]) Set(f, l, cv); }); });
        MonScope mm;
        m = model_from(vals, cv);
        break;
      }
      case 4: {
        if (!EI<E>::kCopyable) return;
        size_t n = rng.below(4);
        std::vector<Val> vals = gen_vals(n, 12);
        set_op("operator=(il)", st(a), fmt("n=%zu", n), fmt("S%d %s", a, vals_str(vals).c_str()));
        with_il(vals, [&](std::initializer_list<E> l) { window([&] { s = l; }); });
        MonScope mm;
        m = model_from(vals, m.key_comp());  // as for std::set, assignment from an initializer list keeps the comparator
        break;
      }
      case 5: {
        size_t n = std::min<size_t>(m.size() + rng.below(8), kFixedUnder ? under_capacity() : 80);
        bool shrink = rng.chance(1, 2);
        set_op(shrink ? "shrink_to_fit" : "reserve", st(a), "-", fmt("S%d n=%zu", a, n));
        if (shrink) window([&] { s.shrink_to_fit(); });
        else window([&] { s.reserve(static_cast<typename Set::size_type>(n)); });
        if (!threw && !shrink) { MonScope mm; if (static_cast<size_t>(s.capacity()) < n) violation("C03", "model.reserve", "capacity() < n after reserve"); }
        break;
      }
    }
    if (threw) { violation("C03", "model.unexpected_exception", threw_what); return; }
    verify();
  }

  // C14: move the object to another address by a raw byte copy, abandon the source
  template <class X>
  bool relocate_obj(X *&obj, const char *what) {
    if (!amc::is_trivially_relocatable<X>::value) return false;
    MonScope m;
    set_op("RELOCATE", what, "-", "");
    X *n = static_cast<X *>(malloc(sizeof(X)));
    memcpy(static_cast<void *>(n), static_cast<const void *>(obj), sizeof(X));
    memset(static_cast<void *>(obj), 0xDD, sizeof(X));
    free(obj);
    obj = n;
    ++counters["relocations"];
    return true;
  }
  void op_reloc(int w) {
    if (w < NS) relocate_obj(S[w], "set");
    else if (w == NS) relocate_obj(T, "set(other-compare)");
    else relocate_obj(V, "spare-vector");
    verify();
  }

  void op_other() {  // keep the differently ordered set T lively
    Val x = nv();
    if (TM->size() >= max_set() || rng.chance(1, 5)) {
      set_op("T:clear", szcls(TM->size()), "-", "");
      window([&] { T->clear(); });
      MonScope mm;
      TM->clear();
    } else {
      set_op("T:emplace", szcls(TM->size()), "-", fmt("%d.%u", x.key, x.pay));
      window([&] { Emp<VecT>::set(*T, x); });
      MonScope mm;
      TM->insert(x);
    }
    if (threw) { violation("C03", "model.unexpected_exception", threw_what); return; }
    verify();
  }

  template <class X>
  X *raw_new() { MonScope m; void *p = malloc(sizeof(X)); memset(p, 0xA5, sizeof(X)); return static_cast<X *>(p); }

  void run_history(uint64_t seed, long h, int nops) {
    begin_history(seed, h, 0xF1A7);
    paycnt = 0;
    set_op("ctor(comp)", "-", "-", "pool");
    for (int i = 0; i < NS; ++i) {
      S[i] = raw_new<Set>();
      Cmp ci = CmpVariant<Cmp>::make(i);  // comparator objects in different states where the type has state
      window([&] { new (S[i]) Set(ci); });
      MonScope m;
      M[i] = new Model(ci);
    }
    T = raw_new<Set2>();
    window([&] { new (T) Set2(cmp2); });
    V = raw_new<VecT>();
    window([&] { new (V) VecT(); });
    {
      MonScope m;
      TM = new Model2(cmp2);
      VM.clear();
    }
    verify();
    for (int i = 0; i < nops && !g_cut && !g_fz_exhausted; ++i) {
      g_cur_op = i + 1;
      int a = rng.below(NS);
      uint32_t r = rng.below(100);
      { bool rel = rng.chance(1, 7); int w = rng.below(NS + 2); if (reloc_mode && rel) op_reloc(w); if (g_cut) break; }
      if (r < 40) op_insert(a);
      else if (r < 55) op_erase(a);
      else if (r < 72) op_lookup(a);
      else if (r < 95) op_pair(a);
      else op_other();
    }
    if (g_cut) { ++n_cut; return; }
    g_cur_op = nops + 1;
    g_cur_sig = "destroy";
    g_cur_desc = "destructors";
    for (int i = 0; i < NS; ++i) { window([&] { S[i]->~Set(); }); MonScope m; free(S[i]); delete M[i]; S[i] = nullptr; M[i] = nullptr; }
    window([&] { T->~Set2(); });
    window([&] { V->~VecT(); });
    {
      MonScope m;
      free(T); free(V); delete TM; T = nullptr; V = nullptr; TM = nullptr;
      g_cur_sig = "end-of-history";
      g_cur_desc = "all containers destroyed";
      if (EI<E>::kTracked && g_live_lib != 0) violation("C02", "ledger.alive_at_end", fmt("%ld element object(s) still alive after all containers were destroyed", g_live_lib));
      if (g_blk_live != 0) violation("C06", "alloc.outstanding_at_end", fmt("%ld block(s) still outstanding after all containers were destroyed", g_blk_live));
    }
    end_history_ok();
  }
};

}  // namespace vf

#ifdef VF_FUZZ
// coverage-guided entry point (libFuzzer): the byte string drives every decision of the history generator
static vf::FlatSetEngine<Elem, Cmp, Cmp2, VecT> *g_fz_eng = nullptr;
static long g_fz_inputs = 0;
static void fz_at_exit() {
  if (g_fz_eng) g_fz_eng->write_summary(VF_CFG_NAME, 0, 0, g_fz_inputs, g_fz_inputs, true);
}
extern "C" int LLVMFuzzerTestOneInput(const uint8_t *data, size_t size) {
  using namespace vf;
  if (!g_fz_eng) {
    MonScope m;
    const char *out = getenv("VF_FUZZ_OUT");
    if (out) open_out(out);
    const char *ring = getenv("VF_FUZZ_RING");
    if (ring) open_ring(ring);
    install_malloc_hook();
    g_elem_relocatable = EI<Elem>::kRelocatable;
    g_selfswap_window = true;
    g_fz_eng = new FlatSetEngine<Elem, Cmp, Cmp2, VecT>();
    atexit(fz_at_exit);
  }
  g_fz_data = data;
  g_fz_size = size;
  g_fz_pos = 0;
  g_fz_exhausted = false;
  g_fz_on = true;
  g_fz_eng->run_history(0, g_fz_inputs++, 120);
  g_fz_on = false;
  if (g_cut) {
    MonScope m;
    g_fz_eng->write_summary(VF_CFG_NAME, 0, 0, g_fz_inputs, g_fz_inputs, true);
    abort();  // libFuzzer keeps the input as the replay artifact
  }
  return 0;
}
#else
int main(int argc, char **argv) {
  using namespace vf;
  Args a;
  a.parse(argc, argv);
  bool hook = install_malloc_hook();
  g_elem_relocatable = EI<Elem>::kRelocatable;
  g_selfswap_window = true;  // set engines: std::sort / inplace_merge / unique move elements on amc's behalf (DESIGN C02)
  static FlatSetEngine<Elem, Cmp, Cmp2, VecT> eng;
  eng.reloc_mode = a.has("--reloc");
  long h = a.from;
  for (; h < a.to; ++h) {
    eng.run_history(a.seed, h, a.nops);
    if (g_cut) break;
  }
  eng.write_summary(VF_CFG_NAME, a.seed, a.from, g_cut ? h + 1 : h, a.to, hook);
  if (g_cut) _exit(3);
  return 0;
}
#endif
