// Containers as elements of containers: the outer amc vector consults the inner container's trivially_relocatable declaration and
// relocates it by raw byte copy when it is claimed.  Serves C14 (containers honour their own declaration, in situ), C02 (elements are
// relocated only as their type allows) and C06.  The including TU defines Elem, Inner (an amc container of Elem), Outer (an amc vector of
// Inner), VF_CFG_NAME.
#pragma once

#include <amc/flatset.hpp>
#include <amc/smallset.hpp>

#include <algorithm>

#include "engine_base.hpp"
#include "mon/cmp.hpp"
#include "vec_common.hpp"

namespace vf {

template <class C> struct IsSetLike { static const bool value = false; };
template <class T, class C, class A, class V> struct IsSetLike<amc::FlatSet<T, C, A, V> > { static const bool value = true; };
template <class T, uintmax_t N, class C, class A, class S> struct IsSetLike<amc::SmallSet<T, N, C, A, S> > { static const bool value = true; };

template <class E, class Inner, class Outer>
struct NestedEngine : EngineBase {
  typedef std::vector<Val> IM;  // model of an inner container: sequence (vectors) or sorted unique keys (sets)
  static constexpr bool kSet = IsSetLike<Inner>::value;
  unsigned paycnt = 0;
  Outer *out = nullptr;
  std::vector<IM> model;
  uint64_t n_inner_reloc_opportunities = 0;

  Val nv() { return EI<E>::norm(Val(static_cast<int>(rng.below(9)), ++paycnt)); }

  // fills an inner container (constructed in place inside the outer one) with k new values
  template <class I_ = Inner>
  typename std::enable_if<!IsSetLike<I_>::value>::type fill(I_ &in, IM &m, int k) {
    for (int i = 0; i < k; ++i) {
      if (static_cast<uintmax_t>(in.size()) >= static_cast<uintmax_t>(in.max_size())) break;  // fixed-capacity inner container is full
      Val x = nv();
      Emp<I_>::back(in, x);
      m.push_back(x);
    }
  }
  template <class I_ = Inner>
  typename std::enable_if<IsSetLike<I_>::value>::type fill(I_ &in, IM &m, int k) {
    for (int i = 0; i < k; ++i) {
      if (static_cast<uintmax_t>(in.size()) >= static_cast<uintmax_t>(in.max_size())) break;
      Val x = nv();
      bool ins = in.emplace(x.key, x.pay).second;
      bool have = false;
      for (auto &y : m) have |= y.key == x.key;
      if (ins != !have) violation("C03,C04", "nested.insert_bool", "inner set insertion flag differs from the model");
      if (!have) { m.push_back(x); std::sort(m.begin(), m.end(), [](const Val &a, const Val &b) { return a.key < b.key; }); }
    }
  }
  static IM read(const Inner &in) {
    IM r;
    Snap sn;
    for (auto it = in.begin(); it != in.end(); ++it) { ElemProbe<E>::probe(*it, sn); r.push_back(EI<E>::val(*it)); sn.vals.push_back(r.back()); }
    if (kSet) std::sort(r.begin(), r.end(), [](const Val &a, const Val &b) { return a.key < b.key; });
    return r;
  }

  void verify() {
    MonScope m;
    if (static_cast<size_t>(out->size()) != model.size()) { violation("C01,C14", "nested.outer_size", fmt("outer size %zu, model %zu", static_cast<size_t>(out->size()), model.size())); return; }
    long visible = 0;
    for (size_t i = 0; i < model.size() && !g_cut; ++i) {
      const Inner &in = (*out)[static_cast<typename Outer::size_type>(i)];
      if (static_cast<size_t>(in.size()) > 1000) { violation("C14,C02", "nested.inner_size_insane", "inner container reports an absurd size"); return; }
      IM got = read(in);
      visible += static_cast<long>(got.size());
      if (!same_vals(got, model[i])) violation("C14,C02,C01", "nested.inner_contents", fmt("inner container %zu holds %s, expected %s", i, vals_str(got).c_str(), vals_str(model[i]).c_str()));
    }
    if (g_cut) return;
    if (EI<E>::kTracked && g_live_lib != visible) violation("C02,C14", "ledger.live_vs_visible", fmt("%ld element objects alive, %ld visible through the nested containers", g_live_lib, visible));
  }

  void run_history(uint64_t seed, long h, int nops) {
    begin_history(seed, h, 0x4E57);
    paycnt = 0;
    model.clear();
    { MonScope m; out = static_cast<Outer *>(malloc(sizeof(Outer))); memset(static_cast<void *>(out), 0xA5, sizeof(Outer)); }
    set_op("ctor()", "-", "-", "outer");
    window([&] { new (out) Outer(); });
    for (int i = 0; i < nops && !g_cut; ++i) {
      g_cur_op = i + 1;
      const size_t sz = model.size();
      uint32_t r = rng.below(100);
      const bool room = sz < 12 && sz < static_cast<size_t>(VecInfo<Outer>::limit());
      if (r < 30 && room) {  // append a new inner container and fill it in place
        int k = static_cast<int>(rng.below(6));
        set_op("outer.emplace_back+fill", fmt("outer=%zu", sz), fmt("k=%d", k), "");
        ++n_inner_reloc_opportunities;
        model.push_back(IM());
        window([&] { out->emplace_back(); fill(out->back(), model.back(), k); });
      } else if (r < 50 && room) {  // insert in the middle: every following inner container is shifted
        size_t pos = rng.below(static_cast<uint32_t>(sz + 1));
        int k = static_cast<int>(rng.below(5));
        set_op("outer.emplace(pos)+fill", fmt("outer=%zu", sz), pos == sz ? "end" : "mid", fmt("pos=%zu k=%d", pos, k));
        n_inner_reloc_opportunities += sz - pos;
        model.insert(model.begin() + pos, IM());
        window([&] { auto it = out->emplace(out->begin() + pos); fill(*it, model[pos], k); });
      } else if (r < 65 && sz) {
        size_t pos = rng.below(static_cast<uint32_t>(sz));
        set_op("outer.erase(pos)", fmt("outer=%zu", sz), pos + 1 == sz ? "last" : "mid", fmt("pos=%zu", pos));
        n_inner_reloc_opportunities += sz - pos - 1;
        window([&] { out->erase(out->begin() + pos); });
        model.erase(model.begin() + pos);
      } else if (r < 78 && sz) {  // grow an inner container in place (may cross its inline capacity)
        size_t pos = rng.below(static_cast<uint32_t>(sz));
        int k = 1 + static_cast<int>(rng.below(4));
        if (model[pos].size() + k > 14) continue;
        set_op("inner.fill", fmt("inner=%zu", model[pos].size()), fmt("k=%d", k), fmt("pos=%zu", pos));
        window([&] { fill((*out)[static_cast<typename Outer::size_type>(pos)], model[pos], k); });
      } else if (r < 86) {
        set_op("outer.reserve/shrink", fmt("outer=%zu", sz), "-", "");
        n_inner_reloc_opportunities += sz;
        if (rng.chance(1, 2)) window([&] { out->shrink_to_fit(); });
        else window([&] { out->reserve(static_cast<typename Outer::size_type>(std::min<uintmax_t>(sz + 1 + rng.below(8), VecInfo<Outer>::limit()))); });
      } else if (r < 93 && sz > 1) {  // erase a range at the front
        size_t n = 1 + rng.below(static_cast<uint32_t>(sz - 1));
        set_op("outer.erase(range)", fmt("outer=%zu", sz), "front", fmt("n=%zu", n));
        n_inner_reloc_opportunities += sz - n;
        window([&] { out->erase(out->begin(), out->begin() + n); });
        model.erase(model.begin(), model.begin() + n);
      } else {  // move the whole outer container to a new object and back (inline outer vectors relocate their elements)
        set_op("outer.move", fmt("outer=%zu", sz), "-", "");
        n_inner_reloc_opportunities += sz;
        Outer *n2;
        { MonScope m; n2 = static_cast<Outer *>(malloc(sizeof(Outer))); memset(static_cast<void *>(n2), 0xA5, sizeof(Outer)); }
        window([&] { new (n2) Outer(std::move(*out)); });
        window([&] { out->~Outer(); });
        { MonScope m; memset(static_cast<void *>(out), 0xDD, sizeof(Outer)); free(out); out = n2; }
      }
      if (threw) { violation("C01", "model.unexpected_exception", threw_what); break; }
      verify();
    }
    if (g_cut) { ++n_cut; return; }
    g_cur_sig = "destroy";
    g_cur_desc = "destructor of the outer container";
    window([&] { out->~Outer(); });
    {
      MonScope m;
      free(out);
      out = nullptr;
      g_cur_sig = "end-of-history";
      if (EI<E>::kTracked && g_live_lib != 0) violation("C02,C14", "ledger.alive_at_end", fmt("%ld element object(s) still alive after the outer container was destroyed", g_live_lib));
      if (g_blk_live != 0) violation("C06", "alloc.outstanding_at_end", fmt("%ld block(s) still outstanding", g_blk_live));
    }
    end_history_ok();
  }
};

}  // namespace vf

int main(int argc, char **argv) {
  using namespace vf;
  Args a;
  a.parse(argc, argv);
  bool hook = install_malloc_hook();
  g_elem_relocatable = EI<Elem>::kRelocatable;
  g_selfswap_window = true;
  static NestedEngine<Elem, Inner, Outer> eng;
  long h = a.from;
  for (; h < a.to; ++h) {
    eng.run_history(a.seed, h, a.nops);
    if (g_cut) break;
  }
  eng.counters["inner_containers_possibly_relocated"] = eng.n_inner_reloc_opportunities;
  eng.counters["inner_claims_trivially_relocatable"] = amc::is_trivially_relocatable<Inner>::value ? 1 : 0;
  eng.write_summary(VF_CFG_NAME, a.seed, a.from, g_cut ? h + 1 : h, a.to, hook);
  if (g_cut) _exit(3);
  return 0;
}
