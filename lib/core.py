"""Driver core: build cache keyed on the contents of /repo/include, worker processes with restart after a
monitor fired or the process died, violation routing through KNOWN_FINDINGS.json, evidence files."""
import concurrent.futures as cf
import fnmatch
import hashlib
import json
import os
import re
import shutil
import subprocess
import sys
import tempfile
import time

VERIF = os.path.dirname(os.path.dirname(os.path.abspath(__file__)))
REPO = os.environ.get("AMC_VERIF_REPO", "/repo")
INC = os.path.join(REPO, "include")
HARNESS = os.path.join(VERIF, "harness")
BUILD = os.path.join(VERIF, "build")
BIN = os.path.join(BUILD, "bin")
RUNS = os.path.join(BUILD, "runs")
EVID = os.environ.get("VERIF_EVIDENCE_DIR") or os.path.join(VERIF, "evidence")
REPLAYS = os.path.join(os.environ["VERIF_EVIDENCE_DIR"], "replays") if os.environ.get("VERIF_EVIDENCE_DIR") else os.path.join(VERIF, "replays")
NCPU = int(os.environ.get("VERIF_JOBS", "16"))
SEED = int(os.environ.get("VERIF_SEED", "1") or "1")

SAN = ["-fsanitize=address,undefined", "-fno-sanitize-recover=all", "-fno-omit-frame-pointer"]
GXX_BASE = ["g++", "-O1", "-g1", "-fno-lifetime-dse", "-w"]
CLANG_BASE = ["clang++-14", "-O1", "-g1", "-w", "-fno-sanitize=object-size"]
ASAN_ENV = {
    "ASAN_OPTIONS": "abort_on_error=1:detect_leaks=1:detect_stack_use_after_return=1:malloc_fill_byte=165:max_malloc_fill_size=65536:allocator_may_return_null=1",
    "UBSAN_OPTIONS": "print_stacktrace=1:halt_on_error=1",
    "LSAN_OPTIONS": "exitcode=23",
}


def log(*a):
    print(*a, file=sys.stderr, flush=True)


_hash_cache = {}


def tree_hash(paths):
    h = hashlib.sha256()
    for root in paths:
        if os.path.isfile(root):
            files = [root]
        else:
            files = []
            for d, _, fs in os.walk(root):
                for f in fs:
                    files.append(os.path.join(d, f))
        for f in sorted(files):
            h.update(f.encode())
            with open(f, "rb") as fh:
                h.update(fh.read())
    return h.hexdigest()


def inc_hash():
    if "inc" not in _hash_cache:
        _hash_cache["inc"] = tree_hash([os.path.join(INC, "amc")])
    return _hash_cache["inc"]


def harness_hash():
    if "h" not in _hash_cache:
        _hash_cache["h"] = tree_hash([HARNESS])
    return _hash_cache["h"]


_INC_RE = re.compile(r'^\s*#\s*include\s+"([^"]+)"', re.M)
_dep_cache = {}


def harness_deps_hash(source):
    """hash of the harness headers a TU (transitively) includes through quoted includes"""
    seen = {}
    todo = [(None, source)]
    while todo:
        base, text = todo.pop()
        for inc in _INC_RE.findall(text):
            cands = [os.path.join(HARNESS, inc)]
            if base:
                cands.insert(0, os.path.join(os.path.dirname(base), inc))
            for c in cands:
                c = os.path.normpath(c)
                if os.path.isfile(c):
                    if c not in seen:
                        if c not in _dep_cache:
                            with open(c) as f:
                                _dep_cache[c] = f.read()
                        seen[c] = _dep_cache[c]
                        todo.append((c, seen[c]))
                    break
    h = hashlib.sha256()
    for k in sorted(seen):
        h.update(k.encode())
        h.update(seen[k].encode())
    return h.hexdigest()


class BuildError(Exception):
    pass


def build_one(name, source, std="c++17", compiler="g++", san="asan", extra=(), opt=None):
    """Compile a single-TU program; returns path of the binary. Cached on (include tree, harness, source, flags)."""
    if compiler == "g++":
        cmd = list(GXX_BASE)
    else:
        cmd = list(CLANG_BASE)
    if opt:
        cmd = [c for c in cmd if not c.startswith("-O")] + [opt]
    if san == "asan":
        cmd += SAN
    elif san == "tsan":
        cmd += ["-fsanitize=thread"]
    elif san == "fuzz":
        cmd += ["-fsanitize=fuzzer,address,undefined", "-fno-sanitize-recover=all", "-fno-omit-frame-pointer", "-DVF_FUZZ"]
    elif san == "ubsan":
        cmd += ["-fsanitize=undefined", "-fno-sanitize-recover=all"]
    elif san == "none":
        pass
    cmd += ["-std=" + std, "-I" + INC, "-I" + HARNESS] + list(extra)
    key = hashlib.sha256((inc_hash() + harness_deps_hash(source) + source + " ".join(cmd)).encode()).hexdigest()[:24]
    os.makedirs(BIN, exist_ok=True)
    out = os.path.join(BIN, "%s-%s" % (re.sub(r"[^A-Za-z0-9_.-]", "_", name), key))
    if os.path.exists(out):
        return out
    tmpd = tempfile.mkdtemp(prefix="tu-", dir=BUILD)
    try:
        src = os.path.join(tmpd, "tu.cpp")
        with open(src, "w") as f:
            f.write(source)
        tmpo = os.path.join(tmpd, "a.out")
        full = cmd + [src, "-o", tmpo]
        if san == "tsan":
            full += ["-pthread"]
        p = subprocess.run(full, stdout=subprocess.PIPE, stderr=subprocess.STDOUT, text=True)
        if p.returncode != 0:
            raise BuildError("build of %s failed:\n%s\n%s" % (name, " ".join(full), p.stdout[-6000:]))
        os.replace(tmpo, out)
    finally:
        shutil.rmtree(tmpd, ignore_errors=True)
    return out


def build_many(specs):
    """specs: list of dict(name, source, std, compiler, san, extra). Returns {name: path}. Raises BuildError."""
    res = {}
    errs = []
    with cf.ThreadPoolExecutor(max_workers=NCPU) as ex:
        futs = {ex.submit(build_one, s["name"], s["source"], s.get("std", "c++17"), s.get("compiler", "g++"), s.get("san", "asan"),
                          tuple(s.get("extra", ())), s.get("opt")): s for s in specs}
        for f in cf.as_completed(futs):
            s = futs[f]
            try:
                res[s["name"]] = f.result()
            except BuildError as e:
                errs.append(str(e))
    if errs:
        raise BuildError("\n".join(errs))
    return res


# ----------------------------------------------------------------------------- running workers

SAN_RE = re.compile(r"(ERROR: AddressSanitizer: [a-zA-Z0-9_-]+|ERROR: LeakSanitizer: [a-z ]+|runtime error: [^\n]{0,100}|terminate called[^\n]{0,120}|Assertion [^\n]{0,160} failed|AddressSanitizer: [A-Z]+ on unknown address|ThreadSanitizer: [a-z ]+)")


def classify_death(rc, stderr_text):
    m = SAN_RE.search(stderr_text or "")
    if m:
        s = m.group(1)
        s = re.sub(r"0x[0-9a-f]+", "ADDR", s)
        s = re.sub(r"\s+", " ", s)
        return s
    return "exit code %d" % rc


def read_ring(path):
    try:
        with open(path, "rb") as f:
            raw = f.read().split(b"\n")[0].decode("utf-8", "replace")
        return json.loads(raw)
    except Exception:
        return None


def run_worker(binary, args, tag, timeout, env_extra=None):
    """Run one worker process. Returns dict(records=[...], rc, stderr, ring, wall, timed_out)."""
    os.makedirs(RUNS, exist_ok=True)
    d = tempfile.mkdtemp(prefix="w-%s-" % re.sub(r"[^A-Za-z0-9_.-]", "_", tag)[:40], dir=RUNS)
    out = os.path.join(d, "out.jsonl")
    ring = os.path.join(d, "ring")
    env = dict(os.environ)
    env.update(ASAN_ENV)
    if env_extra:
        env.update(env_extra)
    t0 = time.time()
    timed_out = False
    try:
        p = subprocess.run([binary] + args + ["--out", out, "--ring", ring], stdout=subprocess.PIPE, stderr=subprocess.PIPE, env=env,
                           timeout=timeout)
        rc, err = p.returncode, p.stderr.decode("utf-8", "replace")
    except subprocess.TimeoutExpired as e:
        rc, err, timed_out = -999, (e.stderr or b"").decode("utf-8", "replace"), True
    recs = []
    if os.path.exists(out):
        with open(out) as f:
            for line in f:
                line = line.strip()
                if not line:
                    continue
                try:
                    recs.append(json.loads(line))
                except Exception:
                    recs.append({"t": "garbled", "raw": line[:200]})
    rg = read_ring(ring)
    shutil.rmtree(d, ignore_errors=True)
    return {"records": recs, "rc": rc, "stderr": err, "ring": rg, "wall": time.time() - t0, "timed_out": timed_out}


def run_history_range(binary, cfg, seed, lo, hi, extra_args, timeout=600, max_events=12):
    """Run histories [lo,hi) of one configuration, restarting after every cut/crash.
    Returns dict(viols=[...], crashes=[...], summaries=[...], inconclusive=[...])."""
    res = {"cfg": cfg, "viols": [], "crashes": [], "summaries": [], "inconclusive": []}
    cur = lo
    events = 0
    while cur < hi and events <= max_events:
        w = run_worker(binary, ["--seed", str(seed), "--from", str(cur), "--to", str(hi)] + extra_args, cfg, timeout)
        summ = None
        for r in w["records"]:
            if r.get("t") == "viol":
                r["cfg"] = cfg
                r["seed"] = seed
                res["viols"].append(r)
            elif r.get("t") == "summary":
                summ = r
            elif r.get("t") == "harness_fail":
                res["inconclusive"].append({"cfg": cfg, "why": "harness failure: " + r.get("why", ""), "hist": r.get("hist")})
        if summ is not None:
            res["summaries"].append(summ)
        if w["timed_out"]:
            # no progress within the (generous) watchdog: re-run the history that was in progress once, on its own; a second
            # time-out in the same call is reported as a hang of that call (a violation key like any other), a single one is inconclusive
            rg = w["ring"] or {}
            h = int(rg.get("hist", cur))
            w2 = run_worker(binary, ["--seed", str(seed), "--from", str(h), "--to", str(h + 1)] + extra_args, cfg, max(60, timeout // 4))
            for r in w2["records"]:
                if r.get("t") == "viol":
                    r["cfg"] = cfg
                    r["seed"] = seed
                    res["viols"].append(r)
            if w2["timed_out"]:
                rg2 = w2["ring"] or rg
                res["crashes"].append({"cfg": cfg, "seed": seed, "what": "hang: no progress within the watchdog, twice", "hist": h, "op": rg2.get("op"),
                                       "sig": rg2.get("sig", "?"), "desc": rg2.get("desc", ""), "stderr": ""})
            else:
                res["inconclusive"].append({"cfg": cfg, "why": "watchdog fired once in history %d (not reproduced)" % h})
            cur = h + 1
            events += 4  # time-outs are expensive: at most a few per range
            continue
        if w["rc"] == 0 and summ is not None:
            cur = summ["next"]
            break
        if summ is not None and summ.get("cut"):
            cur = summ["next"]
            events += 1
            continue
        if w["rc"] == 2:
            break
        # the process died (sanitizer abort, terminate, assertion, LSan at exit)
        rg = w["ring"] or {}
        what = classify_death(w["rc"], w["stderr"])
        at_exit = summ is not None  # died after the summary line: LeakSanitizer at exit
        res["crashes"].append({"cfg": cfg, "seed": seed, "what": what, "hist": rg.get("hist", cur), "op": rg.get("op"),
                               "sig": "process-exit" if at_exit else rg.get("sig", "?"), "desc": rg.get("desc", ""),
                               "stderr": w["stderr"][-3000:]})
        if at_exit:
            cur = summ["next"]
            break
        cur = int(rg.get("hist", cur)) + 1
        events += 1
    res["done_upto"] = cur
    res["budget_exhausted"] = events > max_events
    return res


# ----------------------------------------------------------------------------- findings, evidence, verdict

def load_known():
    p = os.path.join(VERIF, "KNOWN_FINDINGS.json")
    if not os.path.exists(p):
        return []
    with open(p) as f:
        return json.load(f).get("entries", [])


def op_of(sig):
    return (sig or "?").split("/")[0]


def viol_key(v):
    """Key of a violation: monitor + operation + operand state signature (not seed, not configuration)."""
    return "%s|%s" % (v.get("mon", "crash:" + v.get("what", "?")), v.get("sig", "?"))


def match_known(prop, key, known):
    for e in known:
        if e.get("status") != "finding":
            continue
        if e.get("property") != prop:
            continue
        if fnmatch.fnmatchcase(key, e.get("key", "")):
            return e
    return None


def write_replay(prop, name, payload):
    os.makedirs(REPLAYS, exist_ok=True)
    path = os.path.join(REPLAYS, "%s-%s.json" % (prop, re.sub(r"[^A-Za-z0-9_.-]", "_", name)[:80]))
    with open(path, "w") as f:
        json.dump(payload, f, indent=1)
    return path


# (operation/operand-state) cells the unit tests never form and that a run is expected to reach (DESIGN section 3); reported in the evidence
MUST_HIT = {
    "C01": ["operator=(&&)/inl-partial|inl-full", "operator=(&&)/inl-full|inl-partial", "operator=(&&)/heap-le-N|inl-partial", "operator=(&&)/inl-partial|heap-gt-N",
            "swap(member)/inl-partial|inl-full", "swap(member)/inl-full|heap-gt-N", "swap(member)/heap-gt-N|heap-le-N", "operator=(const&)/inl-full|inl-partial",
            "erase(first,last)/inl-full", "erase(first,last)/heap-le-N", "ctor(vector&&)/heap-partial", "ctor(vector&&)/null", "shrink_to_fit/heap-le-N",
            "insert(pos,range)/inl-partial", "assign(range)/heap-empty", "swap2(same)/heap-gt-N|heap-le-N", "alias:insert(pos,v[i])/inl-partial", "push_back(const&)/inl-full"],
    "C05": ["operator=(&&)/inl-partial|inl-full", "operator=(&&)/inl-full|inl-partial", "swap(member)/inl-partial|inl-full", "shrink_to_fit/heap-le-N", "ctor(move)/inl-full",
            "push_back(const&)/inl-partial", "clear/inl-full", "operator=(const&)/inl-empty|inl-full"],
    "C07": ["operator=(&&)/heap-gt-N|heap-gt-N", "swap(member)/heap-gt-N|heap-gt-N", "ctor(move)/heap-gt-N", "reserve/heap-le-N", "erase(pos)/heap-gt-N", "insert(pos,n,v)/heap-gt-N",
            "shrink_to_fit/heap-gt-N", "clear/heap-gt-N"],
    "C13": ["A.swap2(B)/inl-full|heap-full", "A.swap2(B)/heap-gt-N|heap-partial", "B.swap2(A)/heap-gt-N-full|heap-le-N", "A.swap2(B)/full|partial", "A.swap2(B)/inl-partial|inl-full"],
    "C04": ["erase(pos)/large-le-N", "erase(key)/large-le-N", "merge(other-type)/inline-partial|inline-partial", "merge(same-type)/inline-full|large", "compare/inline-full|large-le-N",
            "insert(const&)/inline-full", "erase-while-iterating/large", "erase-while-iterating/large-le-N", "extract+insert(node)/inline-full", "operator=(&&)/large"],
    "C11": ["erase(pos)/large-le-N", "erase(first,last)/large-le-N", "erase-while-iterating/large-le-N", "erase-while-iterating/inline-full", "insert(hint,v)/large", "extract(pos)/large-le-N"],
}


def finish(prop, tier, level, coverage, violations, inconclusive, t0, assumptions, min_evals=1):
    """violations: list of dict(key, detail, replay payload...). Prints VIOLATION / KNOWN-FINDING lines, writes evidence,
    returns the exit code."""
    known = load_known()
    new, listed = {}, {}
    for v in violations:
        k = v["key"]
        e = match_known(prop, k, known)
        if e is not None:
            listed.setdefault(e.get("key"), (e, v))
        else:
            new.setdefault(k, v)
    os.makedirs(EVID, exist_ok=True)
    for _, (e, v) in sorted(listed.items()):
        print("KNOWN-FINDING: property=%s %s" % (prop, e.get("what", e.get("key"))))
    rc = 0
    for k, v in sorted(new.items()):
        path = write_replay(prop, k, v)
        print("VIOLATION property=%s replay=%s" % (prop, path))
        print("  monitor/operation: %s" % k)
        print("  detail: %s" % str(v.get("detail", ""))[:400])
        rc = 1
    cov = dict(coverage)
    opstates = cov.pop("_opstates", None)
    must = MUST_HIT.get(prop)
    if must is not None and opstates is not None:
        missing = sorted(m for m in must if m not in opstates)
        cov["must_hit_cells"] = len(must)
        cov["must_hit_cells_not_observed"] = missing
        if len(missing) * 2 > len(must):
            inconclusive = list(inconclusive) + [{"why": "more than half of the must-hit (operation, operand states) cells were not observed", "missing": missing[:10]}]
    cov.setdefault("evaluations", 0)
    cov.setdefault("distinct_nontrivial", 0)
    ev = {
        "property_id": prop, "tier": tier, "seed": SEED, "level": level, "coverage": cov,
        "assumptions": assumptions, "wall_s": round(time.time() - t0, 2), "violations": len(new),
        "known_findings_confirmed": sorted(listed.keys()),
        "inconclusive": inconclusive[:20],
        "verdict": "violated" if new else ("inconclusive" if inconclusive or cov["evaluations"] < min_evals else "held on what was observed"),
        "repo_include_sha256": inc_hash(),
    }
    with open(os.path.join(EVID, "%s.json" % prop), "w") as f:
        json.dump(ev, f, indent=1)
    if rc == 0 and (inconclusive or cov["evaluations"] < min_evals):
        print("INCONCLUSIVE property=%s: %s" % (prop, json.dumps(inconclusive[:3])[:600]))
        return 2
    if rc == 0:
        print("OK property=%s tier=%s: held on what was observed (%d evaluations, %d distinct non-trivial cells, %.1fs)" %
              (prop, tier, cov["evaluations"], cov["distinct_nontrivial"], time.time() - t0))
    return rc


def find_binary(prefixes):
    """newest cached binary whose file name starts with one of the prefixes (built earlier in this run)"""
    best = None
    for f in os.listdir(BIN):
        for p in prefixes:
            if f.startswith(p + "-"):
                full = os.path.join(BIN, f)
                if best is None or os.path.getmtime(full) > os.path.getmtime(best):
                    best = full
    return best
