"""Coverage-guided stage (libFuzzer, clang): the history engines are built with -fsanitize=fuzzer and every random decision of the
generator is read from the fuzzer's byte string, so libFuzzer's coverage feedback steers the *operation histories* towards library
code the blind generator rarely reaches. All monitors of the engine stay active; a monitor event aborts the process and libFuzzer
keeps the input as the replay artifact. Bounded by a number of inputs per configuration (-runs), never by time."""
import concurrent.futures as cf
import json
import os
import re
import shutil
import subprocess
import tempfile
import time

from . import core, vec


def spec_of(cfg):
    sp = cfg.spec()
    sp = dict(sp)
    sp["name"] = "fz_" + sp["name"]
    sp["san"] = "fuzz"
    sp["compiler"] = "clang++-14"
    return sp


_FINAL_RE = re.compile(r"#(\d+)\s+DONE\s+cov: (\d+) ft: (\d+) corp: (\d+)/")
_STAT_RE = re.compile(r"stat::(\w+):\s+(\d+)")


def run_one(binary, cfg, runs, seed, max_len, env_extra=None, watchdog=3600):
    """one libFuzzer process on one configuration; returns a result dict shaped like core.run_history_range's"""
    os.makedirs(core.RUNS, exist_ok=True)
    d = tempfile.mkdtemp(prefix="fz-%s-" % cfg.name[:40], dir=core.RUNS)
    corpus = os.path.join(d, "corpus")
    os.makedirs(corpus)
    out = os.path.join(d, "out.jsonl")
    ring = os.path.join(d, "ring")
    env = dict(os.environ)
    env.update(core.ASAN_ENV)
    env["VF_FUZZ_OUT"] = out
    env["VF_FUZZ_RING"] = ring
    if env_extra:
        env.update(env_extra)
    # libFuzzer treats -seed=0 as "pick a random seed"
    cmd = [binary, "-runs=%d" % runs, "-seed=%d" % ((seed & 0x7FFFFFFF) or 1), "-max_len=%d" % max_len, "-len_control=50", "-print_final_stats=1",
           "-artifact_prefix=" + d + "/",
           "-timeout=600", "-rss_limit_mb=4096", corpus]
    res = {"cfg": cfg.name, "viols": [], "crashes": [], "summaries": [], "inconclusive": [], "fuzz": {}}
    t0 = time.time()
    try:
        p = subprocess.run(cmd, stdout=subprocess.PIPE, stderr=subprocess.PIPE, env=env, timeout=watchdog, cwd=d)
        rc, err = p.returncode, p.stderr.decode("utf-8", "replace")
    except subprocess.TimeoutExpired as e:
        rc, err = -999, (e.stderr or b"").decode("utf-8", "replace")
        res["inconclusive"].append({"cfg": cfg.name, "why": "fuzz stage: wall-clock watchdog (%ds) fired" % watchdog})
    recs = []
    if os.path.exists(out):
        with open(out) as f:
            for line in f:
                try:
                    recs.append(json.loads(line))
                except Exception:
                    pass
    m = None
    for m in _FINAL_RE.finditer(err):
        pass
    stats = dict((k, int(v)) for k, v in _STAT_RE.findall(err))
    fz = {"inputs": stats.get("number_of_executed_units", 0), "new_units": stats.get("new_units_added", 0)}
    if m:
        fz.update({"edges": int(m.group(2)), "features": int(m.group(3)), "corpus": int(m.group(4))})
    res["fuzz"] = fz
    if rc == 0 and fz["inputs"] < runs:
        res["inconclusive"].append({"cfg": cfg.name, "why": "fuzz stage: libFuzzer reported %d executed inputs, %d were asked for" % (fz["inputs"], runs)})
    artifacts = [f for f in os.listdir(d) if f.startswith(("crash-", "leak-", "timeout-", "oom-"))]
    # libFuzzer's per-input limits are wall-clock / memory limits: their firing is never a verdict by itself (a loaded machine can starve a process).
    # The input is run again, alone, with generous limits: if it completes, the run is accepted (and the event recorded); only an input that fails
    # again is reported.
    limits = [f for f in artifacts if f.startswith(("timeout-", "oom-"))]
    if limits and not any(f.startswith(("crash-", "leak-")) for f in artifacts):
        out2 = os.path.join(d, "out2.jsonl")
        env2 = dict(env)
        env2["VF_FUZZ_OUT"] = out2
        try:
            p2 = subprocess.run([binary, "-timeout=1500", "-rss_limit_mb=12288", os.path.join(d, limits[0])], stdout=subprocess.PIPE, stderr=subprocess.PIPE, env=env2, timeout=1800, cwd=d)
            rc2 = p2.returncode
        except subprocess.TimeoutExpired:
            rc2 = -999
        viol2 = False
        if os.path.exists(out2):
            with open(out2) as f:
                viol2 = any('"t":"viol"' in line for line in f)
        if rc2 == 0 and not viol2:
            fz["limit_events_rerun_ok"] = len(limits)
            res["fuzz"] = fz
            artifacts = []
            rc = 0
            res["inconclusive"] = [x for x in res["inconclusive"] if "executed inputs" not in x.get("why", "")]
    saved = None
    if artifacts:
        os.makedirs(core.REPLAYS, exist_ok=True)
        saved = os.path.join(core.REPLAYS, "fuzz-%s-%s" % (cfg.name, artifacts[0]))
        shutil.copy(os.path.join(d, artifacts[0]), saved)
    got_viol = False
    for r in recs:
        if r.get("t") == "viol":
            r["cfg"], r["seed"] = cfg.name, seed
            r["artifact"] = saved
            res["viols"].append(r)
            got_viol = True
        elif r.get("t") == "summary":
            res["summaries"].append(r)
        elif r.get("t") == "harness_fail":
            res["inconclusive"].append({"cfg": cfg.name, "why": "harness failure in fuzz stage: " + r.get("why", "")})
    if rc not in (0, -999) and not got_viol:
        rg = core.read_ring(ring) or {}
        what = core.classify_death(rc, err)
        if what.startswith("exit code") and not artifacts:
            res["inconclusive"].append({"cfg": cfg.name, "why": "fuzz stage ended with %s and no artifact: %s" % (what, err[-300:])})
        else:
            res["crashes"].append({"cfg": cfg.name, "seed": seed, "what": what, "hist": rg.get("hist"), "op": rg.get("op"), "sig": rg.get("sig", "?"),
                                   "desc": rg.get("desc", ""), "stderr": err[-3000:], "artifact": saved})
    res["wall"] = time.time() - t0
    shutil.rmtree(d, ignore_errors=True)
    return res


def run(prop, tier, cfgs, runs, max_len=1500, crash_owners=("C01", "C02"), any_prop=False, env_extra=None):
    """fuzz every configuration for `runs` inputs; returns (coverage, violations, inconclusive) like vec.run"""
    bins = core.build_many([spec_of(c) for c in cfgs])
    results = []
    with cf.ThreadPoolExecutor(max_workers=core.NCPU) as ex:
        futs = [ex.submit(run_one, bins["fz_" + c.spec()["name"]], c, runs, core.SEED, max_len, env_extra) for c in cfgs]
        for f in futs:
            results.append(f.result())
    old = vec.CRASH_OWNERS
    vec.CRASH_OWNERS = set(crash_owners)
    try:
        cov, viols, inc = vec.aggregate(prop, results, ("--fuzz",), None, any_prop)
    finally:
        vec.CRASH_OWNERS = old
    # replay of a fuzz finding = the saved libFuzzer artifact
    art = {}
    for r in results:
        for v in r["viols"] + r["crashes"]:
            if v.get("artifact"):
                art[(r["cfg"], v.get("hist"))] = v["artifact"]
    for v in viols:
        a = art.get((v["cfg"], v.get("hist")))
        if a:
            v["artifact"] = a
    tot = {"inputs": 0, "new_units": 0, "edges_max": 0, "features_sum": 0, "corpus_sum": 0}
    for r in results:
        fz = r["fuzz"]
        tot["inputs"] += fz.get("inputs", 0)
        tot["new_units"] += fz.get("new_units", 0)
        tot["edges_max"] = max(tot["edges_max"], fz.get("edges", 0))
        tot["features_sum"] += fz.get("features", 0)
        tot["corpus_sum"] += fz.get("corpus", 0)
    cov["coverage_guided"] = {"inputs_executed": tot["inputs"], "inputs_that_reached_new_coverage": tot["new_units"], "corpus_units_at_end": tot["corpus_sum"],
                              "libfuzzer_features_sum": tot["features_sum"], "libfuzzer_edges_max_per_binary": tot["edges_max"],
                              "configurations": [r["cfg"] for r in results], "runs_per_configuration": runs}
    return cov, viols, inc
