"""FlatSet / SmallSet history engines driver (C03, C04, parts of C02 C06 C11)."""
import concurrent.futures as cf

from . import core, vec

CMPS = {"eless": "vf::EmptyLess", "ecoarse": "vf::EmptyCoarse", "less": "vf::Less", "greater": "vf::Greater", "coarse": "vf::Coarse", "stateful": "vf::Stateful", "tless": "vf::TLess", "fine": "vf::FinePar"}


class FSCfg:
    def __init__(self, elem, cmp_, cmp2, under, alloc="basic", std="c++17", compiler="g++"):
        self.elem, self.cmp, self.cmp2, self.under, self.alloc, self.std, self.compiler = elem, cmp_, cmp2, under, alloc, std, compiler
        self.name = "fs_%s_%s_%s_%s_%s_%s_%s" % (elem, cmp_, cmp2, under, alloc, std.replace("c++", "cxx"), "gcc" if compiler == "g++" else "clang")

    def source(self):
        e = vec.ELEMS[self.elem]
        a = vec.alloc_expr(self.alloc, e)
        u = self.under
        if u == "v":
            vt = "amc::vector<%s, %s>" % (e, a)
        elif u == "std":
            vt = "std::vector<%s, %s>" % (e, a)
        elif u.startswith("s"):
            vt = "amc::SmallVector<%s, %d, %s>" % (e, int(u[1:]), a)
        elif u.startswith("f"):
            vt = "amc::FixedCapacityVector<%s, %d>" % (e, int(u[1:]))
        elif u == "std":
            vt = "std::vector<%s, %s>" % (e, a)
        else:
            raise ValueError(u)
        return ('#define VF_CFG_NAME "%s"\n#include <vector>\n#include <amc/flatset.hpp>\n#include <amc/fixedcapacityvector.hpp>\n#include "mon/cmp.hpp"\n#include "mon/alloc.hpp"\n'
                'using Elem = %s;\nusing Cmp = %s;\nusing Cmp2 = %s;\nusing VecT = %s;\n#include "flatset_history_main.hpp"\n') % (
                    self.name, e, CMPS[self.cmp], CMPS[self.cmp2], vt)

    def spec(self):
        return {"name": self.name, "source": self.source(), "std": self.std, "compiler": self.compiler, "extra": ["-DAMC_NONSTD_FEATURES"]}


FS_QUICK = [
    FSCfg("NTR", "less", "greater", "v"),
    FSCfg("TR", "greater", "less", "s4", "realloc"),
    FSCfg("TC4", "coarse", "less", "f64"),
    FSCfg("NTR", "stateful", "less", "s4", "exact"),
    FSCfg("TR", "tless", "greater", "v", "amc"),
    FSCfg("TC12", "less", "coarse", "std", "amc"),
    FSCfg("NTR", "coarse", "greater", "std", "exact"),
    FSCfg("TR", "stateful", "coarse", "f64"),
    FSCfg("TC4", "tless", "stateful", "s4", "basic"),
    FSCfg("NTR", "greater", "stateful", "f64"),
    FSCfg("TR", "less", "tless", "std", "std"),
    FSCfg("NTR", "stateful", "greater", "v", "realloc"),
    FSCfg("TR", "less", "greater", "s4", "basic", std="c++20"),  # operator<=>, erase_if
    FSCfg("int", "coarse", "less", "v", "amc"),  # raw arithmetic keys, equivalence coarser than equality
    FSCfg("TR", "fine", "less", "v", "basic"),  # comparator finer than the elements' operator==
    FSCfg("TR", "eless", "ecoarse", "s4", "basic"),  # empty comparator classes (what std::less<T> is)
    FSCfg("NTRBIG", "less", "greater", "s4", "basic"),  # elements larger than a cache line
    FSCfg("NTR", "less", "greater", "f12"),  # a small bounded underlying vector: merges run into its capacity (out_of_range in the middle of a merge)
]
FS_THOROUGH = [
    FSCfg("TR", "coarse", "less", "s2", "basic"),
    FSCfg("NTR", "tless", "less", "s8", "std"),
    FSCfg("TC1", "less", "greater", "v", "basic"),
    FSCfg("TC4", "greater", "less", "std", "exact"),
    FSCfg("NTR", "less", "greater", "v", std="c++20"),
    FSCfg("TR", "stateful", "less", "s4", "realloc", std="c++20"),
    FSCfg("NTR", "coarse", "less", "v", compiler="clang++-14"),
    FSCfg("TR", "less", "coarse", "f64", compiler="clang++-14"),
    FSCfg("TC4", "stateful", "tless", "s4", "amc", compiler="clang++-14"),
]


class SSCfg:
    """SmallSet configuration: SetA = SmallSet<E, n, cmp, alloc, backing>; SetB = SmallSet<E, nb, cmp2, alloc, same backing family>."""

    def __init__(self, elem, n, cmp_, nb, cmp2, backing, alloc="exact", std="c++17", compiler="g++"):
        self.elem, self.n, self.cmp, self.nb, self.cmp2, self.backing, self.alloc, self.std, self.compiler = elem, n, cmp_, nb, cmp2, backing, alloc, std, compiler
        self.name = "ss_%s_%d%s_%d%s_%s_%s_%s_%s" % (elem, n, cmp_, nb, cmp2, backing, alloc, std.replace("c++", "cxx"), "gcc" if compiler == "g++" else "clang")

    def set_expr(self, n, c):
        e = vec.ELEMS[self.elem]
        a = vec.alloc_expr(self.alloc, e)
        if self.backing == "set":
            return "amc::SmallSet<%s, %d, %s, %s>" % (e, n, c, a)
        return "amc::SmallSet<%s, %d, %s, %s, amc::FlatSet<%s, %s, %s> >" % (e, n, c, a, e, c, a)

    def source(self):
        e = vec.ELEMS[self.elem]
        return ('#define VF_CFG_NAME "%s"\n#include <amc/smallset.hpp>\n#include <amc/flatset.hpp>\n#include "mon/cmp.hpp"\n#include "mon/alloc.hpp"\n'
                'using Elem = %s;\nusing SetA = %s;\nusing SetB = %s;\n#include "smallset_main.hpp"\n') % (
                    self.name, e, self.set_expr(self.n, CMPS[self.cmp]), self.set_expr(self.nb, CMPS[self.cmp2]))

    def spec(self):
        return {"name": self.name, "source": self.source(), "std": self.std, "compiler": self.compiler, "extra": ["-DAMC_NONSTD_FEATURES"]}


# complete small-scope state space: N in {1,2,3}, both backing sets
SS_SPACE_QUICK = [
    SSCfg("NTR", 1, "less", 2, "greater", "set"),
    SSCfg("TR", 2, "less", 3, "less", "set", "basic"),
    SSCfg("TC4", 3, "stateful", 1, "less", "set", "amc"),
    SSCfg("TR", 1, "greater", 3, "coarse", "flat", "basic"),
    SSCfg("NTR", 2, "stateful", 1, "less", "flat"),
    SSCfg("TC4", 3, "less", 2, "greater", "flat", "amc"),
    # a coarse small destination and a finer, larger source: several source elements collapse into one class of the destination
    SSCfg("TC4", 2, "coarse", 3, "less", "set", "exact"),
]
SS_SPACE_THOROUGH = [
    SSCfg("NTR", 3, "coarse", 2, "less", "set"),
    SSCfg("TR", 3, "less", 3, "greater", "flat", "realloc"),
    SSCfg("NTR", 2, "less", 3, "less", "set", std="c++20"),
    SSCfg("NTR", 2, "less", 2, "greater", "flat", std="c++20"),
    SSCfg("TR", 1, "stateful", 2, "stateful", "set", "std"),
    SSCfg("NTR", 2, "greater", 3, "less", "set", compiler="clang++-14"),
    SSCfg("TR", 2, "less", 1, "coarse", "flat", "basic", compiler="clang++-14"),
]
# random histories beyond
SS_HIST_QUICK = [
    SSCfg("NTR", 4, "less", 8, "greater", "set"),
    SSCfg("TR", 8, "stateful", 4, "less", "set", "basic"),
    SSCfg("TC4", 4, "coarse", 6, "less", "set", "amc"),
    SSCfg("NTR", 4, "greater", 2, "less", "flat", "basic"),
    SSCfg("TR", 8, "less", 4, "coarse", "flat", "realloc"),
    SSCfg("TC12", 4, "stateful", 8, "stateful", "flat", "std"),
    SSCfg("NTR", 3, "less", 5, "greater", "set", "exact", std="c++20"),  # operator<=>, erase_if
    SSCfg("TC4", 40, "less", 48, "coarse", "set", "amc"),  # large inline capacities (more than 32 inline elements)
    SSCfg("TR", 6, "coarse", 12, "less", "flat", "basic"),
    # transparent comparator: heterogeneous lookups (int keys, and keys equivalent to a run of several elements), both backing sets
    SSCfg("TC4", 4, "tless", 6, "less", "flat", "basic"),
    SSCfg("NTR", 3, "tless", 5, "tless", "set"),
    SSCfg("TC4", 4, "fine", 6, "less", "set", "amc"),  # comparator finer than the elements' operator==
    # empty comparator classes (what std::less<T> is): code specialised on std::is_empty<Compare>
    SSCfg("NTR", 8, "eless", 4, "ecoarse", "set"),
    SSCfg("TC4", 6, "ecoarse", 8, "eless", "flat", "basic"),
]
SS_HIST_THOROUGH = [
    SSCfg("NTR", 8, "coarse", 4, "greater", "flat"),
    SSCfg("TR", 4, "tless", 8, "less", "set", "exact"),
    SSCfg("NTR", 4, "less", 8, "less", "set", std="c++20"),
    SSCfg("TR", 4, "stateful", 3, "greater", "flat", "basic", std="c++20"),
    SSCfg("NTR", 6, "less", 4, "greater", "set", compiler="clang++-14"),
]


# configurations of the coverage-guided stage (lib/fuzz.py; clang++-14 + libFuzzer)
FUZZ_FS = [
    FSCfg("NTR", "stateful", "less", "s4", "exact", compiler="clang++-14"),
    FSCfg("TR", "tless", "greater", "v", "amc", compiler="clang++-14"),
    FSCfg("TC4", "coarse", "less", "f64", compiler="clang++-14"),
    FSCfg("NTR", "less", "greater", "v", compiler="clang++-14"),
    FSCfg("TR", "greater", "stateful", "s4", "realloc", compiler="clang++-14"),
    FSCfg("NTR", "coarse", "greater", "std", "exact", compiler="clang++-14"),
    FSCfg("int", "coarse", "less", "v", "amc", compiler="clang++-14"),
    FSCfg("TR", "less", "greater", "s4", "basic", std="c++20", compiler="clang++-14"),
]
FUZZ_SS = [
    SSCfg("NTR", 4, "less", 8, "greater", "set", compiler="clang++-14"),
    SSCfg("TR", 4, "stateful", 3, "greater", "flat", "basic", compiler="clang++-14"),
    SSCfg("TC4", 4, "tless", 6, "less", "flat", "basic", compiler="clang++-14"),
    SSCfg("TR", 8, "stateful", 4, "less", "set", "basic", compiler="clang++-14"),
    SSCfg("NTR", 3, "tless", 5, "tless", "set", compiler="clang++-14"),
    SSCfg("TC4", 4, "coarse", 6, "less", "set", "amc", compiler="clang++-14"),
    SSCfg("NTR", 4, "greater", 2, "less", "flat", "basic", compiler="clang++-14"),
    SSCfg("NTR", 3, "less", 5, "greater", "set", "exact", std="c++20", compiler="clang++-14"),
]


def fuzz_cfgs(kind, tier):
    l = FUZZ_FS if kind == "fs" else FUZZ_SS
    return l if tier == "thorough" else l[:2]


def run_space(prop, tier, crash_owners):
    """complete small-scope exploration: the edge range of each configuration is split over the workers"""
    cfgs = SS_SPACE_QUICK + (SS_SPACE_THOROUGH if tier == "thorough" else [])
    bins = core.build_many([c.spec() for c in cfgs])
    # edges are numbered by the engine itself; an upper bound is enough (the engine clamps)
    EDGES = 400000
    k = max(1, round(2.0 * core.NCPU / len(cfgs)))
    jobs = []
    for c in cfgs:
        step = -(-EDGES // k)
        lo = 0
        while lo < EDGES:
            jobs.append((c, lo, min(EDGES, lo + step)))
            lo += step
    results = []
    with cf.ThreadPoolExecutor(max_workers=core.NCPU) as ex:
        futs = [ex.submit(core.run_history_range, bins[c.name], c.name, core.SEED, lo, hi, ["--space"], 300 if tier == "quick" else 1800, 6) for (c, lo, hi) in jobs]
        for f in futs:
            results.append(f.result())
    old = vec.CRASH_OWNERS
    vec.CRASH_OWNERS = set(crash_owners)
    try:
        cov, viols, inc = vec.aggregate(prop, results, ["--space"])
    finally:
        vec.CRASH_OWNERS = old
    states = trans = pairs = 0
    per_cfg = {}
    for r in results:
        for s in r["summaries"]:
            cn = s.get("counters", {})
            d = per_cfg.setdefault(r["cfg"], {"states": 0, "transitions": 0, "pair_transitions": 0, "total_edges": 0})
            d["states"] = max(d["states"], cn.get("states_A", 0))
            d["total_edges"] = max(d["total_edges"], cn.get("total_edges", 0))
            d["transitions"] += cn.get("transitions", 0)
            d["pair_transitions"] += cn.get("pair_transitions", 0)
    for d in per_cfg.values():
        states += d["states"]
        trans += d["transitions"] + d["pair_transitions"]
    cov["states"] = states
    cov["transitions"] = trans
    cov["per_configuration"] = per_cfg
    cov["exhaustive"] = all(d["total_edges"] > 0 and d["transitions"] + d["pair_transitions"] == d["total_edges"] for d in per_cfg.values()) and not viols
    return cov, viols, inc


def run_engine(prop, tier, cfgs, hist_quick, hist_thorough, ops=60, extra_args=(), crash_owners=("C03", "C02"), any_prop=False, min_chunk=10):
    bins = core.build_many([c.spec() for c in cfgs])
    nh = hist_quick if tier == "quick" else hist_thorough
    k = max(1, round(2.0 * core.NCPU / len(cfgs)))
    chunk = max(min_chunk, -(-nh // k))
    jobs = []
    for c in cfgs:
        lo = 0
        while lo < nh:
            hi = min(nh, lo + chunk)
            jobs.append((c, lo, hi))
            lo = hi
    results = []
    with cf.ThreadPoolExecutor(max_workers=core.NCPU) as ex:
        futs = [ex.submit(core.run_history_range, bins[c.name], c.name, core.SEED, lo, hi, ["--ops", str(ops)] + list(extra_args), 240 if tier == "quick" else 1200, 8)
                for (c, lo, hi) in jobs]
        for f in futs:
            results.append(f.result())
    old = vec.CRASH_OWNERS
    vec.CRASH_OWNERS = set(crash_owners)
    try:
        return vec.aggregate(prop, results, extra_args, None, any_prop)
    finally:
        vec.CRASH_OWNERS = old


def flatset_cfgs(tier):
    return FS_QUICK + (FS_THOROUGH if tier == "thorough" else [])


def merge_cov(a, b):
    """merge two coverage dicts of vec.aggregate()"""
    out = dict(a)
    for k in ("evaluations", "distinct_nontrivial", "histories_completed", "monitored_calls_in_nontrivial_cells", "histories_cut_short_by_other_properties_monitors"):
        out[k] = a.get(k, 0) + b.get(k, 0)
    out["_opstates"] = set(a.get("_opstates", set())) | set(b.get("_opstates", set()))
    out["configurations"] = a.get("configurations", []) + b.get("configurations", [])
    out["samples"] = (a.get("samples", []) + b.get("samples", []))[:4]
    ob = dict(a.get("observed", {}))
    for k, v in b.get("observed", {}).items():
        ob[k] = max(ob.get(k, 0), v) if k == "blk_peak" else ob.get(k, 0) + v
    out["observed"] = ob
    return out


class HGCfg:
    def __init__(self, elem, cmp_, under, alloc="basic", std="c++17", compiler="g++"):
        self.elem, self.cmp, self.under, self.alloc, self.std, self.compiler = elem, cmp_, under, alloc, std, compiler
        self.name = "hg_%s_%s_%s_%s_%s_%s" % (elem, cmp_, under, alloc, std.replace("c++", "cxx"), "gcc" if compiler == "g++" else "clang")

    def source(self):
        f = FSCfg(self.elem, self.cmp, "less", self.under, self.alloc)
        src = f.source().replace('"flatset_history_main.hpp"', '"hint_grid_main.hpp"').replace(f.name, self.name)
        maxn = int(self.under[1:]) if self.under.startswith("f") else 1000000  # bounded underlying vector: no large-set sweep
        return ("#define VF_HG_MAX_N %d\n" % maxn) + src

    def spec(self):
        return {"name": self.name, "source": self.source(), "std": self.std, "compiler": self.compiler, "extra": ["-DAMC_NONSTD_FEATURES"]}


HG_QUICK = [
    HGCfg("TC4", "less", "v", "amc"),
    HGCfg("NTR", "greater", "s3", "basic"),
    HGCfg("TR", "coarse", "f16"),
    HGCfg("TC4", "stateful", "std", "std"),
    HGCfg("NTR", "coarse", "v", "exact"),
    HGCfg("TR", "less", "s3", "realloc"),
    HGCfg("TC8", "greater", "f16"),
    HGCfg("NTR", "stateful", "std", "exact"),
    # comparator finer than the elements' operator== (two elements that are == can both belong to the set)
    HGCfg("TC4", "fine", "v", "amc"),
    HGCfg("NTR", "fine", "s3", "basic"),
    HGCfg("TC8", "tless", "v", "amc"),  # transparent comparator: a value of another type must be converted before the position is searched
]
HG_THOROUGH = [
    HGCfg("TR", "stateful", "v", "basic"),
    HGCfg("TC4", "coarse", "s3", "amc"),
    HGCfg("NTR", "less", "f16"),
    HGCfg("TR", "greater", "std", "std"),
    HGCfg("NTR", "coarse", "s3", "basic", std="c++20"),
    HGCfg("TC4", "less", "v", "amc", compiler="clang++-14"),
]


class CostCfg(HGCfg):
    def __init__(self, elem, cmp_, under, alloc="amc", std="c++17", compiler="g++"):
        HGCfg.__init__(self, elem, cmp_, under, alloc, std, compiler)
        self.name = "cost_" + self.name[3:]

    def source(self):
        f = FSCfg(self.elem, self.cmp, "less", self.under, self.alloc)
        maxn = 100 if self.under.startswith("f") else 1000000
        if self.elem == "K1":
            maxn = min(maxn, 62)  # keys 4, 8, .. and the gaps must fit 8 bits
        if self.elem == "K2":
            maxn = min(maxn, 8000)  # .. 16 bits
        return ("#define VF_MAX_N %d\n" % maxn) + f.source().replace('"flatset_history_main.hpp"', '"set_cost_main.hpp"').replace(f.name, self.name)


COST_QUICK = [
    CostCfg("TC8", "less", "v"),
    CostCfg("NTR", "greater", "s4", "basic"),
    CostCfg("TR", "coarse", "std", "std"),
    CostCfg("TC8", "stateful", "f128"),
    # narrow keys: thresholds expressed in bytes (elements per cache line) move with sizeof(T)
    CostCfg("K1", "less", "v"),
    CostCfg("K2", "greater", "s4", "basic"),
    CostCfg("int", "less", "v", "amc"),  # raw arithmetic keys (a search may guess positions from the key values: skewed key sets)
    CostCfg("NTRBIG", "less", "v", "basic"),  # elements larger than a cache line
    CostCfg("TRBIG", "greater", "s4", "basic"),
    CostCfg("TC8", "tless", "v"),  # transparent comparator: heterogeneous keys, incl. keys equivalent to long runs of elements
]
COST_THOROUGH = [
    CostCfg("TR", "less", "s4", "realloc"),
    CostCfg("NTR", "coarse", "v", "exact"),
    CostCfg("TC12", "greater", "std", "amc"),
    CostCfg("TC8", "less", "v", compiler="clang++-14"),
    CostCfg("K2", "less", "std", "std"),
    CostCfg("K1", "stateful", "f128"),
]


class SetFaultCfg:
    """kind: 'flat' (under = underlying vector) or 'small' (under = 'set'|'flat', n = inline capacity)"""

    def __init__(self, kind, elem, cmp_, cmp2, under, n=0, alloc="exact", std="c++17", compiler="g++"):
        self.kind, self.elem, self.cmp, self.cmp2, self.under, self.n, self.alloc, self.std, self.compiler = kind, elem, cmp_, cmp2, under, n, alloc, std, compiler
        self.name = "sf_%s_%s_%s_%s_%s_%d_%s_%s_%s" % (kind, elem, cmp_, cmp2, under, n, alloc, std.replace("c++", "cxx"), "gcc" if compiler == "g++" else "clang")

    def source(self):
        e = vec.ELEMS[self.elem]
        if self.kind == "flat":
            f = FSCfg(self.elem, self.cmp, self.cmp2, self.under, self.alloc)
            src = f.source().replace(f.name, self.name)
            src = src.replace('#include "flatset_history_main.hpp"',
                              'using SetT = amc::FlatSet<Elem, Cmp, VecT::allocator_type, VecT>;\nusing SetT2 = amc::FlatSet<Elem, Cmp2, VecT::allocator_type, VecT>;\n'
                              '#define VF_SET_N 0\n#include "set_fault_main.hpp"')
            return src
        s = SSCfg(self.elem, self.n, self.cmp, self.n + 1, self.cmp2, self.under, self.alloc)
        src = s.source().replace(s.name, self.name)
        src = src.replace("using SetA =", "using SetT =").replace("using SetB =", "using SetT2 =")
        src = src.replace('#include "smallset_main.hpp"', '#define VF_SET_N %d\n#include "set_fault_main.hpp"' % self.n)
        return src

    def spec(self):
        return {"name": self.name, "source": self.source(), "std": self.std, "compiler": self.compiler, "extra": ["-DAMC_NONSTD_FEATURES"]}


SETFAULT_QUICK = [
    SetFaultCfg("flat", "NTR", "less", "greater", "v", alloc="basic"),
    SetFaultCfg("flat", "TR", "coarse", "less", "s4", alloc="exact"),
    SetFaultCfg("flat", "NTR", "stateful", "less", "f64"),
    SetFaultCfg("small", "NTR", "less", "greater", "set", 3, "exact"),
    SetFaultCfg("small", "TR", "less", "coarse", "set", 2, "basic"),
    SetFaultCfg("small", "NTR", "greater", "less", "flat", 3, "basic"),
    SetFaultCfg("small", "TR", "stateful", "less", "flat", 4, "exact"),
    SetFaultCfg("flat", "NTR", "less", "greater", "v", alloc="exact", std="c++20"),  # C++20 dispatch of range arguments (merge hands a move-iterator range to the vector)
    # asymmetric copies (see vec.py)
    SetFaultCfg("flat", "NTRNCC", "less", "greater", "v", alloc="basic"),
    SetFaultCfg("flat", "TRNCA", "less", "greater", "s4", alloc="exact"),
    SetFaultCfg("small", "NTRNCA", "less", "greater", "flat", 3, "basic"),
]
SETFAULT_THOROUGH = [
    # no std::vector underlying here: after a throwing copy std::vector::insert leaves moved-from elements behind (its own basic guarantee);
    # that is libstdc++ behaviour, not amc code (DESIGN section 8)
    SetFaultCfg("flat", "TR", "less", "greater", "s8", alloc="exact"),
    SetFaultCfg("flat", "NTR", "greater", "coarse", "s2", alloc="realloc"),
    SetFaultCfg("small", "NTR", "coarse", "less", "set", 1, "exact"),
    SetFaultCfg("small", "NTR", "less", "less", "flat", 8, "exact"),
    SetFaultCfg("small", "TR", "less", "greater", "set", 4, "exact", compiler="clang++-14"),
    SetFaultCfg("flat", "NTR", "less", "greater", "v", alloc="basic", std="c++20"),
]


class SimpleCfg:
    """a harness program that needs no type configuration, built at a given -std / compiler"""

    def __init__(self, prefix, main_file, std="c++17", compiler="g++", extra=(), san="asan", opt=None, defs=""):
        self.std, self.compiler, self.main_file, self.extra, self.san, self.opt, self.defs = std, compiler, main_file, list(extra), san, opt, defs
        self.name = "%s_%s_%s" % (prefix, std.replace("c++", "cxx"), "gcc" if compiler == "g++" else "clang")

    def source(self):
        return '#define VF_CFG_NAME "%s"\n%s#include "%s"\n' % (self.name, self.defs, self.main_file)

    def spec(self):
        return {"name": self.name, "source": self.source(), "std": self.std, "compiler": self.compiler, "extra": self.extra, "san": self.san, "opt": self.opt}


# non-relocatable elements no larger than a pointer (tiny_main.cpp)
TINY_QUICK = [SimpleCfg("tiny", "tiny_main.cpp", "c++17", extra=["-DAMC_NONSTD_FEATURES"]), SimpleCfg("tiny", "tiny_main.cpp", "c++14", extra=["-DAMC_NONSTD_FEATURES"])]
TINY_THOROUGH = [SimpleCfg("tiny", "tiny_main.cpp", "c++20", extra=["-DAMC_NONSTD_FEATURES"]), SimpleCfg("tiny", "tiny_main.cpp", "c++17", compiler="clang++-14", extra=["-DAMC_NONSTD_FEATURES"])]
# the library with its default template arguments and ordinary element types (defaults_main.cpp)
DEFAULTS_QUICK = [SimpleCfg("dflt", "defaults_main.cpp", "c++17", extra=["-DAMC_NONSTD_FEATURES"])]
DEFAULTS_THOROUGH = [SimpleCfg("dflt", "defaults_main.cpp", "c++20", extra=["-DAMC_NONSTD_FEATURES"]),
                     SimpleCfg("dflt", "defaults_main.cpp", "c++17", compiler="clang++-14", extra=["-DAMC_NONSTD_FEATURES"])]
GROWTH_HUGE = [SimpleCfg("grhuge", "vec_growth_huge_main.cpp", "c++17", extra=["-DAMC_NONSTD_FEATURES"])]
GROWTH_HUGE_THOROUGH = [SimpleCfg("grhuge", "vec_growth_huge_main.cpp", "c++11", extra=["-DAMC_NONSTD_FEATURES"]),
                        SimpleCfg("grhuge", "vec_growth_huge_main.cpp", "c++20", compiler="clang++-14", extra=["-DAMC_NONSTD_FEATURES"])]
REALLOC_DIRECT = [SimpleCfg("rd", "realloc_direct_main.cpp", "c++17"), SimpleCfg("rd", "realloc_direct_main.cpp", "c++11")]
ALGO_QUICK = [SimpleCfg("ma", "mem_algos_main.cpp", s) for s in ("c++11", "c++14", "c++17", "c++20")]
ALGO_THOROUGH = [SimpleCfg("ma", "mem_algos_main.cpp", s, "clang++-14") for s in ("c++11", "c++14", "c++17", "c++20")]
# optional: relocation between different types (not defined by the standard algorithms; judged only where the tree offers it, i.e. where it compiles)
ALGO_OPTIONAL = [SimpleCfg("mahr", "mem_algos_main.cpp", s, defs="#define VF_HETERO_RELOC 1\n") for s in ("c++14", "c++17")]


class NestedCfg:
    """Outer amc vector whose elements are amc containers (Inner) of Elem"""

    def __init__(self, elem, inner, outer, oalloc="exact", std="c++17", compiler="g++"):
        self.elem, self.inner, self.outer, self.oalloc, self.std, self.compiler = elem, inner, outer, oalloc, std, compiler
        self.name = "nest_%s_%s_in_%s_%s_%s_%s" % (elem, inner, outer, oalloc, std.replace("c++", "cxx"), "gcc" if compiler == "g++" else "clang")

    def source(self):
        e = vec.ELEMS[self.elem]
        ia = "vf::ExactAlloc<%s, vf::FAM_EXACT2>" % e
        k = self.inner
        if k.startswith("fs_s"):
            inner = "amc::FlatSet<%s, std::less<%s>, %s, amc::SmallVector<%s, %d, %s> >" % (e, e, ia, e, int(k[4:]), ia)
        elif k.startswith("fs_f"):
            inner = "amc::FlatSet<%s, std::less<%s>, amc::vec::EmptyAlloc, amc::FixedCapacityVector<%s, %d> >" % (e, e, e, int(k[4:]))
        elif k == "fs_v":
            inner = "amc::FlatSet<%s, std::less<%s>, %s>" % (e, e, ia)
        elif k.startswith("ssf"):
            inner = "amc::SmallSet<%s, %d, std::less<%s>, %s, amc::FlatSet<%s, std::less<%s>, %s> >" % (e, int(k[3:]), e, ia, e, e, ia)
        elif k.startswith("ss"):
            inner = "amc::SmallSet<%s, %d, std::less<%s>, %s>" % (e, int(k[2:]), e, ia)
        elif k.startswith("s"):
            inner = "amc::SmallVector<%s, %d, %s>" % (e, int(k[1:]), ia)
        elif k.startswith("f"):
            inner = "amc::FixedCapacityVector<%s, %d>" % (e, int(k[1:]))
        else:
            inner = "amc::vector<%s, %s>" % (e, ia)
        oa = {"exact": "vf::ExactAlloc<Inner>", "amc": "amc::allocator<Inner>", "realloc": "vf::ReallocAlloc<Inner>"}[self.oalloc]
        outer = "amc::vector<Inner, %s>" % oa if self.outer == "v" else "amc::SmallVector<Inner, %d, %s>" % (int(self.outer[1:]), oa)
        # what the harness (not amc) knows: is the inner container type safe to move by raw bytes?
        elem_reloc = self.elem not in ("NTR", "NTRTM")
        inner_reloc = (k == "v") or (k == "fs_v") or (elem_reloc and not (k.startswith("ss") and not k.startswith("ssf")))
        return ('#define VF_CFG_NAME "%s"\n#include <functional>\n#include <amc/smallset.hpp>\n#include <amc/flatset.hpp>\n#include <amc/fixedcapacityvector.hpp>\n#include "mon/cmp.hpp"\n'
                '#include "mon/alloc.hpp"\nusing Elem = %s;\nusing Inner = %s;\nusing Outer = %s;\nnamespace vf { template <> struct HarnessReloc<Inner> { static int get() { return %d; } }; }\n'
                '#include "nested_main.hpp"\n') % (self.name, e, inner, outer, 1 if inner_reloc else 0)

    def spec(self):
        return {"name": self.name, "source": self.source(), "std": self.std, "compiler": self.compiler, "extra": ["-DAMC_NONSTD_FEATURES"]}


NESTED_QUICK = [
    NestedCfg("NTR", "s2", "v"), NestedCfg("NTR", "s1", "s2", "amc"), NestedCfg("NTR", "f2", "v", "realloc"), NestedCfg("NTR", "fs_s2", "v", "amc"),
    NestedCfg("TR", "s3", "v", "realloc"), NestedCfg("NTR", "fs_f4", "s2"), NestedCfg("TR", "ssf3", "v", "amc"), NestedCfg("NTR", "ss3", "v"),
    NestedCfg("NTR", "v", "s2", "realloc"), NestedCfg("TR", "fs_v", "v", "realloc"),
]
NESTED_THOROUGH = [
    NestedCfg("NTR", "f1", "v", "amc"), NestedCfg("TR", "f4", "s2", "realloc"), NestedCfg("NTR", "ssf3", "v", "realloc"), NestedCfg("TR", "fs_s2", "s2", "amc"),
    NestedCfg("NTR", "s8", "v", "amc"), NestedCfg("NTR", "s2", "v", compiler="clang++-14"), NestedCfg("NTR", "fs_s2", "v", "amc", std="c++20"),
]
