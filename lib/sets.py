"""FlatSet / SmallSet history engines driver (C03, C04, parts of C02 C06 C11)."""
import concurrent.futures as cf

from . import core, vec

CMPS = {"less": "vf::Less", "greater": "vf::Greater", "coarse": "vf::Coarse", "stateful": "vf::Stateful", "tless": "vf::TLess"}


class FSCfg:
    def __init__(self, elem, cmp_, cmp2, under, alloc="basic", std="c++17", compiler="g++"):
        self.elem, self.cmp, self.cmp2, self.under, self.alloc, self.std, self.compiler = elem, cmp_, cmp2, under, alloc, std, compiler
        self.name = "fs_%s_%s_%s_%s_%s_%s_%s" % (elem, cmp_, cmp2, under, alloc, std.replace("c++", "cxx"), "gcc" if compiler == "g++" else "clang")

    def source(self):
        e = vec.ELEMS[self.elem]
        a = vec.alloc_expr(self.alloc, e)
        u = self.under
        if u == "v":
            vt = "amc::vector<%s, %s>" % (e, a)
        elif u == "std":
            vt = "std::vector<%s, %s>" % (e, a)
        elif u.startswith("s"):
            vt = "amc::SmallVector<%s, %d, %s>" % (e, int(u[1:]), a)
        elif u.startswith("f"):
            vt = "amc::FixedCapacityVector<%s, %d>" % (e, int(u[1:]))
        elif u == "std":
            vt = "std::vector<%s, %s>" % (e, a)
        else:
            raise ValueError(u)
        return ('#define VF_CFG_NAME "%s"\n#include <vector>\n#include <amc/flatset.hpp>\n#include <amc/fixedcapacityvector.hpp>\n#include "mon/cmp.hpp"\n#include "mon/alloc.hpp"\n'
                'using Elem = %s;\nusing Cmp = %s;\nusing Cmp2 = %s;\nusing VecT = %s;\n#include "flatset_history_main.hpp"\n') % (
                    self.name, e, CMPS[self.cmp], CMPS[self.cmp2], vt)

    def spec(self):
        return {"name": self.name, "source": self.source(), "std": self.std, "compiler": self.compiler, "extra": ["-DAMC_NONSTD_FEATURES"]}


FS_QUICK = [
    FSCfg("NTR", "less", "greater", "v"),
    FSCfg("TR", "greater", "less", "s4", "realloc"),
    FSCfg("TC4", "coarse", "less", "f64"),
    FSCfg("NTR", "stateful", "less", "s4", "exact"),
    FSCfg("TR", "tless", "greater", "v", "amc"),
    FSCfg("TC12", "less", "coarse", "std", "amc"),
    FSCfg("NTR", "coarse", "greater", "std", "exact"),
    FSCfg("TR", "stateful", "coarse", "f64"),
    FSCfg("TC4", "tless", "stateful", "s4", "basic"),
    FSCfg("NTR", "greater", "stateful", "f64"),
    FSCfg("TR", "less", "tless", "std", "std"),
    FSCfg("TC8", "stateful", "greater", "v", "realloc"),
]
FS_THOROUGH = [
    FSCfg("TR", "coarse", "less", "s2", "basic"),
    FSCfg("NTR", "tless", "less", "s8", "std"),
    FSCfg("TC1", "less", "greater", "v", "basic"),
    FSCfg("TC4", "greater", "less", "std", "exact"),
    FSCfg("NTR", "less", "greater", "v", std="c++20"),
    FSCfg("TR", "stateful", "less", "s4", "realloc", std="c++20"),
    FSCfg("NTR", "coarse", "less", "v", compiler="clang++-14"),
    FSCfg("TR", "less", "coarse", "f64", compiler="clang++-14"),
    FSCfg("TC4", "stateful", "tless", "s4", "amc", compiler="clang++-14"),
]


def run_engine(prop, tier, cfgs, hist_quick, hist_thorough, ops=60, extra_args=(), crash_owners=("C03", "C02")):
    bins = core.build_many([c.spec() for c in cfgs])
    nh = hist_quick if tier == "quick" else hist_thorough
    k = max(1, round(2.0 * core.NCPU / len(cfgs)))
    chunk = max(10, -(-nh // k))
    jobs = []
    for c in cfgs:
        lo = 0
        while lo < nh:
            hi = min(nh, lo + chunk)
            jobs.append((c, lo, hi))
            lo = hi
    results = []
    with cf.ThreadPoolExecutor(max_workers=core.NCPU) as ex:
        futs = [ex.submit(core.run_history_range, bins[c.name], c.name, core.SEED, lo, hi, ["--ops", str(ops)] + list(extra_args), 900, 8)
                for (c, lo, hi) in jobs]
        for f in futs:
            results.append(f.result())
    old = vec.CRASH_OWNERS
    vec.CRASH_OWNERS = set(crash_owners)
    try:
        return vec.aggregate(prop, results, extra_args)
    finally:
        vec.CRASH_OWNERS = old


def flatset_cfgs(tier):
    return FS_QUICK + (FS_THOROUGH if tier == "thorough" else [])


def merge_cov(a, b):
    """merge two coverage dicts of vec.aggregate()"""
    out = dict(a)
    for k in ("evaluations", "distinct_nontrivial", "histories_completed", "monitored_calls_in_nontrivial_cells", "histories_cut_short_by_other_properties_monitors"):
        out[k] = a.get(k, 0) + b.get(k, 0)
    out["configurations"] = a.get("configurations", []) + b.get("configurations", [])
    out["samples"] = (a.get("samples", []) + b.get("samples", []))[:4]
    ob = dict(a.get("observed", {}))
    for k, v in b.get("observed", {}).items():
        ob[k] = max(ob.get(k, 0), v) if k == "blk_peak" else ob.get(k, 0) + v
    out["observed"] = ob
    return out
