"""One function per property: selects engines and workloads, aggregates, writes evidence."""
import time

from . import c16, c17, c20, core, fuzz, sets, vec

ASSUME_SAN = ["ASan/UBSan/LSan red zones: an overrun that lands inside another live object is only seen through the value/ledger oracles",
              "harness element types and allocators (harness/mon) are correct", "g++ 12 / libstdc++ std::vector and std::set as reference models"]


FUZZ_RULE = (" Coverage-guided stage: the same engine built with clang -fsanitize=fuzzer,address,undefined; every decision of the history generator is read "
             "from libFuzzer's byte string, so coverage feedback mutates operation histories (coverage.coverage_guided: inputs executed, inputs that reached "
             "new library/harness coverage, corpus size); same monitors, a monitor event keeps the input as replay artifact.")


def _vec_fuzzed(prop, tier, swap2=False, **kw):
    """random histories of the vector engine + the coverage-guided stage over the same engine"""
    cov, viols, inc = vec.run(prop, tier, **kw)
    cfgs = vec.FUZZ_CFGS if tier == "thorough" else vec.FUZZ_QUICK
    if prop == "C05":
        cfgs = [c for c in cfgs if c.inline_type]
    runs = 150000 if tier == "thorough" else 25000
    c2, v2, i2 = fuzz.run(prop, tier, cfgs, runs, crash_owners=vec.CRASH_OWNERS | ({prop} if prop in ("C10", "C13") else set()),
                          env_extra={"VF_FUZZ_SWAP2": "1"} if swap2 else None)
    cg = c2.pop("coverage_guided")
    cov = sets.merge_cov(cov, c2)
    cov["coverage_guided"] = cg
    return cov, viols + v2, inc + i2


def _set_fuzzed(prop, tier, kind, owners, cov, viols, inc):
    """adds the coverage-guided stage of the FlatSet ('fs') or SmallSet ('ss') history engine to (cov, viols, inc)"""
    c2, v2, i2 = fuzz.run(prop, tier, sets.fuzz_cfgs(kind, tier), 100000 if tier == "thorough" else 20000, max_len=1200, crash_owners=owners)
    cg = c2.pop("coverage_guided")
    out = sets.merge_cov(cov, c2)
    prev = cov.get("coverage_guided")
    if prev:
        for k in ("inputs_executed", "inputs_that_reached_new_coverage", "corpus_units_at_end", "libfuzzer_features_sum"):
            cg[k] += prev.get(k, 0)
        cg["libfuzzer_edges_max_per_binary"] = max(cg["libfuzzer_edges_max_per_binary"], prev.get("libfuzzer_edges_max_per_binary", 0))
        cg["configurations"] = prev.get("configurations", []) + cg["configurations"]
        cg["runs_per_configuration"] = "%s / %s" % (prev.get("runs_per_configuration"), cg["runs_per_configuration"])
    out["coverage_guided"] = cg
    return out, viols + v2, inc + i2


DEFAULTS_RULE = (" Plus the defaults engine: the library with its DEFAULT template arguments (std::less / std::greater, amc::allocator / std::allocator, default "
                 "size_type, std::set or FlatSet as the large set) over int, 64-bit integers at the extremes of their range, double, std::string (short and long) "
                 "and pair<int,string> elements, every call compared with std::vector / std::set under ASan/UBSan/LSan.")


def _defaults(prop, tier, family, owners, cov, viols, inc):
    """the defaults engine (harness/defaults_main.cpp), family in --vec / --flat / --small"""
    cfgs = sets.DEFAULTS_QUICK + (sets.DEFAULTS_THOROUGH if tier == "thorough" else [])
    c2, v2, i2 = sets.run_engine(prop, tier, cfgs, 960, 9600, ops=120, extra_args=[family], crash_owners=owners)
    return sets.merge_cov(cov, c2), viols + v2, inc + i2


def c01(tier):
    t0 = time.time()
    cov, viols, inc = _vec_fuzzed("C01", tier)
    cov, viols, inc = _defaults("C01", tier, "--vec", ("C01",), cov, viols, inc)
    cov["rule"] = ("random operation histories over a pool of 4 same-typed vectors + 2 partner vectors of another flavour, every call compared with a "
                   "std::vector model (sequence by key and unique payload, return values, returned positions, comparisons); a cell is distinct by "
                   "(configuration, operation, operand state classes, argument class); trivial cells (default construction, destruction) are not counted." + FUZZ_RULE + DEFAULTS_RULE)
    return core.finish("C01", tier, "exploration", cov, viols, inc, t0, ASSUME_SAN, min_evals=1000)


VEC_RULE = ("random operation histories over a pool of 4 same-typed vectors + 2 partner vectors of another flavour (+1 amc::vector donor for "
            "SmallVector(vector&&)); a cell is distinct by (configuration, operation, operand state classes, argument class); trivial cells "
            "(default construction, destruction) are not counted." + FUZZ_RULE + " ")


def _with_sets(prop, tier, flat=True, small_space=True, small_hist=True, nested=False):
    """vector histories + the set engines, for the properties whose quantifier covers vectors and sets"""
    cov, viols, inc = _vec_fuzzed(prop, tier)
    if flat:
        c2, v2, i2 = sets.run_engine(prop, tier, sets.flatset_cfgs(tier), 300, 3000, crash_owners=("C03", "C02"))
        cg = cov.get("coverage_guided")
        cov, viols, inc = sets.merge_cov(cov, c2), viols + v2, inc + i2
        if cg:
            cov["coverage_guided"] = cg
        cov, viols, inc = _set_fuzzed(prop, tier, "fs", ("C03", "C02"), cov, viols, inc)
    if small_space:
        c3, v3, i3 = sets.run_space(prop, tier, ("C04", "C11", "C02"))
        cov, viols, inc = sets.merge_cov(cov, c3), viols + v3, inc + i3
    if small_hist:
        cfgs = sets.SS_HIST_QUICK + (sets.SS_HIST_THOROUGH if tier == "thorough" else [])
        c4, v4, i4 = sets.run_engine(prop, tier, cfgs, 200, 3000, ops=80, crash_owners=("C04", "C11", "C02"))
        cg = cov.get("coverage_guided")
        cov, viols, inc = sets.merge_cov(cov, c4), viols + v4, inc + i4
        if cg:
            cov["coverage_guided"] = cg
        cov, viols, inc = _set_fuzzed(prop, tier, "ss", ("C04", "C11", "C02"), cov, viols, inc)
    if nested:
        ncfgs = sets.NESTED_QUICK + (sets.NESTED_THOROUGH if tier == "thorough" else [])
        c5, v5, i5 = sets.run_engine(prop, tier, ncfgs, 150, 1500, ops=60, crash_owners=("C14", "C02"))
        cov, viols, inc = sets.merge_cov(cov, c5), viols + v5, inc + i5
    return cov, viols, inc


def c02(tier):
    t0 = time.time()
    cov, viols, inc = _with_sets("C02", tier, nested=True)
    # non-relocatable elements no larger than a pointer: address / value / life cycle in a side table (harness/tiny_main.cpp)
    tcfgs = sets.TINY_QUICK + (sets.TINY_THOROUGH if tier == "thorough" else [])
    c2, v2, i2 = sets.run_engine("C02", tier, tcfgs, 800, 8000, ops=80, crash_owners=("C02",), any_prop=True)
    cov, viols, inc = sets.merge_cov(cov, c2), viols + v2, inc + i2
    cov["rule"] = VEC_RULE + ("The same for FlatSet pools and SmallSet pools (random histories and the complete small-scope SmallSet state space). "
                              "Judge: element ledger (identity, lifetime, moved-from flag, self pointer of non relocatable elements, self move-assignment "
                              "in the vector engines) evaluated after every call and at the end of every history, plus ASan/UBSan/LSan. Plus histories over vectors of "
                              "4- and 8-byte non relocatable elements (address, value and life cycle kept in a side table), incl. SmallVectors whose inline storage is "
                              "the pointer word.")
    return core.finish("C02", tier, "exploration", cov, viols, inc, t0, ASSUME_SAN, min_evals=1000)


def c05(tier):
    t0 = time.time()
    cov, viols, inc = _with_sets("C05", tier, flat=False)
    cov["rule"] = VEC_RULE + ("SmallSet: complete small-scope state space and random histories with the shadow 'has never held more than N elements'. ""Judge: entitlement shadow taken literally from the statement (entitled at construction, after shrink_to_fit with size<=N, after "
                              "being moved from; lost when size or reserve exceeds N or a heap buffer is adopted): entitled SmallVectors must report capacity()==N, "
                              "keep data() inside the object and cause no allocator/malloc request; FixedCapacityVector never allocates and begin() is constant.")
    cov["explanation_counters"] = "observed.entitled_calls = calls judged by the no-allocation rule; observed.unentitled_alloc_calls shows the allocation counter is alive"
    return core.finish("C05", tier, "exploration", cov, viols, inc, t0, ASSUME_SAN + ["malloc hook: __sanitizer_install_malloc_and_free_hooks"], min_evals=1000)


def c06(tier):
    t0 = time.time()
    cov, viols, inc = _with_sets("C06", tier, small_space=False)
    c2, v2, i2 = sets.run_engine("C06", tier, sets.REALLOC_DIRECT, 4, 4, crash_owners=("C06",), any_prop=True)
    cov, viols, inc = sets.merge_cov(cov, c2), viols + v2, inc + i2
    # the allocator protocol when the allocator itself fails: the fault sweep of C09 (every allocator call of every scenario made to throw in turn)
    # judged by the allocator ledger (a block handed back twice / never after a failed growth shows up here, not on any fault-free path)
    fcfgs = [c for c in vec.FAULT_QUICK + (vec.FAULT_THOROUGH if tier == "thorough" else []) if c.flav != "f"]
    c3, v3, i3 = sets.run_engine("C06", tier, fcfgs, 30, 30, extra_args=["--wide"] if tier == "thorough" else [], crash_owners=("C06", "C09"))
    cov, viols, inc = sets.merge_cov(cov, c3), viols + v3, inc + i3
    cov["rule"] = VEC_RULE + ("Judge: allocator ledger (pointer -> byte count, allocator family) checked on every allocate/deallocate/reallocate, zero outstanding "
                              "blocks when all containers of a history are destroyed; reallocate only for relocatable element types with true old capacity "
                              "and live count; LeakSanitizer for the stock allocators. Plus a direct driver of BasicAllocatorWrapper::reallocate over the complete "
                              "grid old capacity 1..9 x new capacity 1..12 x live count, for TC/TR/non-TR elements, instrumented basic allocator (always moves, "
                              "poisons the old block) and amc::allocator (realloc): the live prefix must be preserved by value and identity. Plus the allocator-fault "
                              "sweep of the vector fault engine (every allocator call of every scenario throws in turn) under the same ledger.")
    return core.finish("C06", tier, "exploration", cov, viols, inc, t0, ASSUME_SAN, min_evals=1000)


def c07(tier):
    t0 = time.time()
    cov, viols, inc = _vec_fuzzed("C07", tier)
    # swap2 between two heap-backed vectors is a swap too: the state-pair grid of C13 judges the buffer hand-over
    c2, v2, i2 = sets.run_engine("C07", tier, vec.SWAP2_QUICK + (vec.SWAP2_THOROUGH if tier == "thorough" else []), 120, 120,
                                 extra_args=["--wide"] if tier == "thorough" else [], crash_owners=())
    cov, viols, inc = sets.merge_cov(cov, c2), viols + v2, inc + i2
    cov["rule"] = VEC_RULE + ("Plus the swap2 state-pair grid (hand-over rule for two heap-backed vectors of the same allocator type whose capacities fit both size types). ""Judge: shadow of capacity()/data()/element addresses and identities before and after every call: size<=capacity<=max_size, capacity "
                              "only decreases through shrink_to_fit/move/swap, no reallocation when the result fits, elements before the point untouched (per-object "
                              "event stamps), buffer hand-over on move/swap of heap-backed vectors without element events.")
    return core.finish("C07", tier, "exploration", cov, viols, inc, t0, ASSUME_SAN, min_evals=1000)


def c03(tier):
    t0 = time.time()
    cov, viols, inc = sets.run_engine("C03", tier, sets.flatset_cfgs(tier), 300, 3000)
    cov, viols, inc = _set_fuzzed("C03", tier, "fs", ("C03", "C02"), cov, viols, inc)
    cov, viols, inc = _defaults("C03", tier, "--flat", ("C03",), cov, viols, inc)
    cov["rule"] = ("random operation histories over a pool of 3 FlatSets + one FlatSet with another comparator + a spare vector; every call compared with "
                   "std::set models built with the same comparator object (sequence by key and payload, booleans, counts, bounds, positions, node state), "
                   "strict comparator order after every call, comparator provenance; distinct cell = (configuration, operation, size class, argument class)." + FUZZ_RULE + DEFAULTS_RULE)
    return core.finish("C03", tier, "exploration", cov, viols, inc, t0, ASSUME_SAN, min_evals=1000)


SS_RULE = ("(a) complete small-scope state space: breadth-first search over the abstract states (inline element order | large content) of a SmallSet with "
           "N in {1,2,3} and keys 0..4, executing from every state every operation x argument (insert/emplace/hint/erase key/erase position/erase range/"
           "extract/insert(node)/clear/copy/move/assign/ranges of length<=3/erase-while-iterating for every subset) on the real object, then every ordered "
           "pair of reached states under swap, comparison operators and merge (same type and another N/comparator); (b) random histories for N in {4,8}. "
           "Every edge is judged by a std::set model; iterators returned by the library are validated against a fresh walk before being dereferenced. "
           "distinct cell = (configuration, operation, state class, argument class)")


def _smallset(prop, tier, owners):
    t0 = time.time()
    cov1, v1, i1 = sets.run_space(prop, tier, owners)
    cfgs = sets.SS_HIST_QUICK + (sets.SS_HIST_THOROUGH if tier == "thorough" else [])
    cov2, v2, i2 = sets.run_engine(prop, tier, cfgs, 200, 3000, ops=80, crash_owners=owners)
    cov = sets.merge_cov(cov1, cov2)
    cov, v2, i2 = _set_fuzzed(prop, tier, "ss", owners, cov, v2, i2)
    cov, v2, i2 = _defaults(prop, tier, "--small", owners, cov, v2, i2)
    for k in ("states", "transitions", "per_configuration", "exhaustive"):
        cov[k] = cov1[k]
    cov["rule"] = SS_RULE + FUZZ_RULE + DEFAULTS_RULE
    cov["exhaustive_scope"] = "small-scope state space only (N<=3, 5 keys); the random histories are a sample"
    return cov, v1 + v2, i1 + i2, t0


def c04(tier):
    cov, viols, inc, t0 = _smallset("C04", tier, ("C04", "C02"))
    return core.finish("C04", tier, "exploration", cov, viols, inc, t0, ASSUME_SAN, min_evals=1000)


def c11(tier):
    cov, viols, inc, t0 = _smallset("C11", tier, ("C11", "C04", "C02"))
    return core.finish("C11", tier, "exploration", cov, viols, inc, t0, ASSUME_SAN, min_evals=1000)


def c12(tier):
    t0 = time.time()
    cfgs = sets.HG_QUICK + (sets.HG_THOROUGH if tier == "thorough" else [])
    k = 9 if tier == "thorough" else 6
    total = 1 << k
    cov, viols, inc = sets.run_engine("C12", tier, cfgs, total + 3, total + 3, extra_args=["--k9"] if k == 9 else [], crash_owners=("C12",), any_prop=True, min_chunk=1)
    triples = 0
    cov["rule"] = ("complete enumeration: every subset of a %d-key domain (keys spaced by 2) x every hint position in [begin,end] x every value (below, each key, "
                   "each gap, above) x {insert(hint,const&), insert(hint,&&), emplace_hint}, per (comparator, underlying vector) configuration; judged against plain "
                   "insert on an identical copy and against std::set; distinct cell = (configuration, form, empty/non-empty, present/absent, hint relative to "
                   "lower_bound); evaluations counts monitored library calls" % k)
    cov["exhaustive"] = not viols and not inc and cov["histories_completed"] == (total + 3) * len(cfgs)
    cov["exhaustive_scope"] = "the enumeration over the %d-key domain; the two large-set sweeps (1500 and 5200 elements, every hint within +-72 positions of the lower bound around 5 anchors) are a sample; so is the sweep of the library's default comparator (std::less<T>) over integral keys at the extremes of their range (8 integral types x 64 subsets of 6 extreme values x 18 values x every hint x 3 forms)" % k
    cov["subsets_enumerated"] = cov["histories_completed"] - 3 * len(cfgs)
    return core.finish("C12", tier, "exploration", cov, viols, inc, t0, ASSUME_SAN, min_evals=1000)


def c19(tier):
    t0 = time.time()
    cfgs = sets.COST_QUICK + (sets.COST_THOROUGH if tier == "thorough" else [])
    total = 71 + (1 if tier == "thorough" else 0)
    cov, viols, inc = sets.run_engine("C19", tier, cfgs, total, total, extra_args=["--big"] if tier == "thorough" else [], crash_owners=("C19",))
    cov["rule"] = ("comparator-call counter read before/after each call: FlatSets of n = 0..64, 100, 500, 1000, 4096 (+20000 thorough) elements, every key rank "
                   "(present) and every gap (absent) for n<=64, 200 sampled ranks above, for find/contains/count/lower_bound/upper_bound/equal_range/insert/emplace/"
                   "erase(key) (bound 2*ceil(log2(n+1))+4) and insertion with every correct hint (bound 6); inline SmallSets N=1..8 x every fill x every key "
                   "(bound 2N+2); SmallSets (N = 1, 4, 8) over a FlatSet in their large state with 2..1500 elements: find/contains/count/insert/emplace/erase(key)/"
                   "extract/insert(node) within the logarithmic bound, insert / emplace_hint / insert(node) with the correct hint within 6. "
                   "distinct cell = (configuration, size class); evaluations = monitored calls")
    return core.finish("C19", tier, "exploration", cov, viols, inc, t0, ASSUME_SAN, min_evals=1000)


def c18(tier):
    t0 = time.time()
    cfgs = vec.GROWTH_QUICK + (vec.GROWTH_THOROUGH if tier == "thorough" else [])
    cov, viols, inc = sets.run_engine("C18", tier, cfgs, 27, 27, extra_args=["--deep"] if tier == "thorough" else [], crash_owners=("C18",))
    # capacities of the order of the size_type maximum (billions of one-byte elements in a lazily committed mapping)
    hcfgs = sets.GROWTH_HUGE + (sets.GROWTH_HUGE_THOROUGH if tier == "thorough" else [])
    c2, v2, i2 = sets.run_engine("C18", tier, hcfgs, 52, 52, crash_owners=("C18",), min_chunk=3)
    cov, viols, inc = sets.merge_cov(cov, c2), viols + v2, inc + i2
    # growth steps met in the random histories of the vector engine (any operation that makes a vector allocate a larger buffer without an explicit request)
    c3, v3, i3 = vec.run("C18", tier, hist_quick=160, hist_thorough=1600)
    cov, viols, inc = sets.merge_cov(cov, c3), viols + v3, inc + i3
    cov["rule"] = ("append sweeps of n one-element appends (n<=3000 quick, 100000 thorough, clamped by the size_type) from 5 start states x 5 append methods per "
                   "configuration, with allocator-call and relocation counters judged at every step (2*ceil(log2 n)+4 calls, each growth step >= ceil(1.5*old) "
                   "unless clamped, 4n+8 relocations), plus the growth steps observed in random histories of the vector engine (every allocation of a larger buffer without an explicit reserve / swap2 adjustment must be >= 1.5 x old), plus a reserve/shrink_to_fit grid, plus append sweeps on full vectors of 0.7e9 .. 4.29e9 one-byte elements "
                   "(32-bit unsigned / signed and 64-bit size types; the elements live in a lazily committed mapping) around the points where 3c and 1.5c leave 32 bits; distinct cell = (configuration, start state, method) or (operation, state class)")
    return core.finish("C18", tier, "exploration", cov, viols, inc, t0, ASSUME_SAN, min_evals=1000)


def c10(tier):
    t0 = time.time()
    cfgs = vec.ALIAS_QUICK + (vec.ALIAS_THOROUGH if tier == "thorough" else [])
    cov, viols, inc = sets.run_engine("C10", tier, cfgs, 44, 44, extra_args=["--wide"] if tier == "thorough" else [], crash_owners=("C10",), any_prop=True)
    # the same aliased calls embedded in the random histories of the C01 engine
    c2, v2, i2 = _vec_fuzzed("C10", tier, hist_quick=120, hist_thorough=1200)
    cov = sets.merge_cov(cov, c2)
    cov["rule"] = ("complete small-scope grid: size 1..%d x position 0..size x source index x count 0..3 x spare capacity {natural/inline, heap full (must grow), "
                   "exactly enough, more than enough} x 11 aliased call forms (incl. emplace from references to members of an element), per (flavour, N, element category, allocator) configuration, each judged against a "
                   "std::vector model fed with a copy of the element taken before the call; plus the aliased calls embedded in random histories. "
                   "distinct cell = (configuration, form, state class, source vs position, grows/fits)" % (12 if tier == "thorough" else 6))
    cov["exhaustive"] = not viols and not inc
    cov["exhaustive_scope"] = "the grid only; the embedded random histories are a sample"
    return core.finish("C10", tier, "exploration", cov, viols + v2, inc + i2, t0, ASSUME_SAN, min_evals=1000)


def c08(tier):
    t0 = time.time()
    cfgs = vec.LIMITS_QUICK + (vec.LIMITS_THOROUGH if tier == "thorough" else [])
    cov, viols, inc = sets.run_engine("C08", tier, cfgs, 24, 24, extra_args=["--deep"] if tier == "thorough" else [], crash_owners=("C08",), any_prop=True)
    cov["rule"] = ("complete boundary grid per configuration: every fill in the neighbourhood of the limit (all fills for N<=8) x spare-capacity mode x every growing "
                   "operation (24 forms incl. constructors and at()) x positions {0,1,mid,size-1,size} x counts with size+count in [limit-1,limit+3], 0, max and "
                   "max-1 of the size_type x 4 range iterator categories; expected verdict computed in uintmax_t by the harness; after a throw the snapshot "
                   "(contents, size, capacity, data(), element identities, live elements, outstanding blocks, canaries) must be unchanged and a follow-up script "
                   "must work; within the limit the result must equal std::vector. distinct cell = (configuration, operation, state class, fits/exceeds, count class)")
    cov["exhaustive"] = not viols and not inc
    return core.finish("C08", tier, "exploration", cov, viols, inc, t0, ASSUME_SAN, min_evals=1000)


def c09(tier):
    t0 = time.time()
    cfgs = vec.FAULT_QUICK + (vec.FAULT_THOROUGH if tier == "thorough" else [])
    cov, viols, inc = sets.run_engine("C09", tier, cfgs, 30, 30, extra_args=["--wide"] if tier == "thorough" else [], crash_owners=("C09",), any_prop=True)
    scfgs = sets.SETFAULT_QUICK + (sets.SETFAULT_THOROUGH if tier == "thorough" else [])
    c2, v2, i2 = sets.run_engine("C09", tier, scfgs, 13, 13, crash_owners=("C09",), any_prop=True)
    cov, viols, inc = sets.merge_cov(cov, c2), viols + v2, inc + i2
    ob = cov.get("observed", {})
    cov["rule"] = ("fault enumeration: scenario = (configuration, state {size 0/2/5 x natural, heap-full, exact room, more room}, operation (29 forms incl. swap / swap2 with a vector of the same type), position "
                   "{begin, mid, end}, count); each scenario is run fault-free to count its M throwing-capable events (element value/default/copy construction, "
                   "copy assignment, allocator allocate/reallocate), then re-created M times with the k-th event throwing. After each fault: live elements == "
                   "visible elements, all visible alive and not moved-from, allocator ledger == blocks owned, follow-up script, clean destruction; for the "
                   "documented-strong operations the contents must be unchanged. evaluations = monitored calls; distinct cell = (configuration, operation, "
                   "state class, grows/fits, strong/basic, position class). Sets: FlatSet and SmallSet (both backing sets) insert/emplace/hint/range/"
                   "initializer-list insertion, merge (same and other comparator), copy construction/assignment, range construction at contents around "
                   "the inline capacity; after each fault every container involved must be a consistent set of live elements, draining it completely "
                   "must leave it empty, refilling must work and destruction must leave nothing behind.")
    cov["fault_points_enumerated"] = ob.get("fault_points_found", 0)
    cov["faulted_executions"] = ob.get("faulted_executions", 0)
    cov["armed_but_not_reached"] = ob.get("armed_but_not_reached", 0)
    return core.finish("C09", tier, "fault_enumeration", cov, viols, inc, t0, ASSUME_SAN, min_evals=1000)


def c13(tier):
    t0 = time.time()
    cfgs = vec.SWAP2_QUICK + (vec.SWAP2_THOROUGH if tier == "thorough" else [])
    cov, viols, inc = sets.run_engine("C13", tier, cfgs, 120, 120, extra_args=["--wide"] if tier == "thorough" else [], crash_owners=("C13",), any_prop=True)
    # swap2 interleaved with the other operations in random histories over mixed pools
    c2, v2, i2 = _vec_fuzzed("C13", tier, swap2=True, extra_args=["--swap2-heavy"], hist_quick=120, hist_thorough=1500)
    cov = sets.merge_cov(cov, c2)
    cov["rule"] = ("state-pair grid: for each configuration pair (flavour x N x size_type x allocator type on both sides) every ordered pair of operand states "
                   "{natural/inline, heap with capacity==size, heap with spare room, heap then cleared, adopted small-capacity buffer} x sizes 0..6 (9 thorough) and "
                   "250/255/300, both call directions; judged by exchanged model sequences, element ledger, allocator ledger, canaries, 'capacity() tells the "
                   "truth' and a follow-up script on both operands; impossible exchanges must throw and leave both operands unchanged. Plus random histories "
                   "with swap2 over-weighted. distinct cell = (configuration pair, direction, operand state classes, size relation)")
    return core.finish("C13", tier, "exploration", cov, viols + v2, inc + i2, t0, ASSUME_SAN, min_evals=1000)


def c15(tier):
    t0 = time.time()
    cfgs = sets.ALGO_QUICK + (sets.ALGO_THOROUGH if tier == "thorough" else [])
    cov, viols, inc = sets.run_engine("C15", tier, cfgs, 17, 17, crash_owners=("C15",), any_prop=True)
    # optional engine: relocation between different types, judged only where the tree offers it (the binary compiles)
    offered, not_offered = [], []
    for oc in sets.ALGO_OPTIONAL:
        try:
            core.build_many([oc.spec()])
            offered.append(oc)
        except core.BuildError:
            not_offered.append(oc.name)
    if offered:
        c2, v2, i2 = sets.run_engine("C15", tier, offered, 17, 17, crash_owners=("C15",), any_prop=True)
        cov, viols, inc = sets.merge_cov(cov, c2), viols + v2, inc + i2
    cov["relocation_between_different_types"] = {"judged_in": [o.name for o in offered], "not_offered_by_this_tree (does not compile)": not_offered}
    ob = cov.get("observed", {})
    cov["rule"] = ("every algorithm of amc/memory.hpp x range length 0..5 x source iterator category {pointer, random access, bidirectional, forward, move_iterator} x "
                   "value category {int, trivially copyable struct, declared-relocatable, non-relocatable, non-relocatable with throwing move} x every throw index "
                   "(and no throw), built at -std=c++11/14/17/20 (thorough: also clang); judged against the standard's wording (values, returned iterators/pairs, "
                   "input-iterator advance; relocate = move-construct then destroy the source), element ledger for clean-up on throw, guard slots around the "
                   "destination, UBSan. Overlapping relocation (both directions) for the bitwise categories. distinct cell = (standard/compiler, algorithm, value "
                   "category, iterator category, empty/non-empty)")
    cov["fault_points_enumerated"] = ob.get("fault_points_found", 0)
    cov["faulted_executions"] = ob.get("faulted_executions", 0)
    cov["exhaustive"] = not viols and not inc
    return core.finish("C15", tier, "fault_enumeration", cov, viols, inc, t0, ASSUME_SAN, min_evals=500)


def c16_check(tier):
    t0 = time.time()
    cov, viols, inc = c16.run(tier, 200 if tier == "quick" else 1000)
    return core.finish("C16", tier, "exploration", cov, viols, inc, t0,
                       ["g++ 12 only (one compiler) for the build matrix", "UBSan in every build so that identical output by luck of undefined behaviour is not accepted"], min_evals=100)


def c17_check(tier):
    t0 = time.time()
    cov, viols, inc = c17.run(tier)
    return core.finish("C17", tier, "other", cov, viols, inc, t0,
                       ["the property is decided by the compiler; the probe only prints the constants the compiler computed", "x86-64, sizeof(void*) == 8",
                        "the oracle (lib/c17.py) is written from the property statement and shares no code with amc"], min_evals=500)


def c14(tier):
    """relocation by raw byte copy at random quiescent points of the histories; a failing history is attributed to C14 only if the
    same history passes without the relocations (differential), otherwise it is another property's defect"""
    t0 = time.time()
    runs = []
    runs.append(("vh_", vec.run("C14", tier, extra_args=["--reloc"], hist_quick=200, hist_thorough=2000, any_prop=True), 80))
    fcfgs = [c for c in sets.flatset_cfgs(tier) if c.under != "std" and (c.elem != "NTR" or c.under == "v")]
    runs.append(("", sets.run_engine("C14", tier, fcfgs, 200, 2000, extra_args=["--reloc"], any_prop=True), 60))
    scfgs = [c for c in sets.SS_HIST_QUICK + (sets.SS_HIST_THOROUGH if tier == "thorough" else []) if c.backing == "flat" and c.elem != "NTR"]
    runs.append(("", sets.run_engine("C14", tier, scfgs, 200, 2000, ops=80, extra_args=["--reloc"], any_prop=True), 80))
    by_name = {}
    for cobj in vec.select("C14", tier) + fcfgs + scfgs:
        by_name[cobj.name] = cobj
    cov = None
    viols, inc = [], []
    foreign = 0
    for prefix, (c, v, i), ops in runs:
        cov = c if cov is None else sets.merge_cov(cov, c)
        inc += i
        seen = set()
        for x in v:
            if x.get("monitor", "").startswith("reloc."):
                viols.append(x)
                continue
            hk = (x["cfg"], x.get("hist"))
            if hk in seen or x.get("hist") is None:
                continue
            seen.add(hk)
            cobj = by_name.get(x["cfg"])
            if cobj is None:
                inc.append({"why": "configuration %s not found" % x["cfg"]})
                continue
            sp = cobj.spec()
            b = core.build_many([sp])[sp["name"]]  # the very binary of this run (cached)
            r = core.run_history_range(b, x["cfg"], x["seed"], int(x["hist"]), int(x["hist"]) + 1, ["--ops", str(ops)], 600, 2)
            if r["viols"] or r["crashes"]:
                foreign += 1   # fails without any relocation as well: not a relocatability defect
            else:
                x = dict(x)
                x["key"] = "after-relocation:" + x["key"]
                x["detail"] = "history passes without relocations, fails with them: " + str(x.get("detail"))
                viols.append(x)
    # containers as elements of containers: the outer vector relocates the inner ones according to their own declaration
    ncfgs = sets.NESTED_QUICK + (sets.NESTED_THOROUGH if tier == "thorough" else [])
    nc, nv_, ni = sets.run_engine("C14", tier, ncfgs, 150, 1500, ops=60, crash_owners=("C14", "C02"), any_prop=True)
    cov = sets.merge_cov(cov, nc)
    viols += nv_
    inc += ni
    # the static side: no container claims the trait when a part is not relocatable (rows of the C17 probe about relocatability)
    c17cov, c17v, c17i = c17.run(tier)
    for x in c17v:
        if "trivially_relocatable" in x["detail"] or " tr " in x["detail"] or "relocatable" in x["detail"]:
            viols.append(x)
    cov["static_trait_rows"] = c17cov["evaluations"]
    cov["histories_failing_also_without_relocation"] = foreign
    cov["rule"] = ("random histories (vector pools, FlatSet pools, FlatSet-backed SmallSet pools) over container types that declare themselves trivially relocatable; "
                   "at random quiescent points a container is moved by memcpy to a fresh block, the old block is poisoned and freed, and the history goes on with "
                   "the copy under all monitors; differential attribution: the same history is re-run without relocations. Static side: the trait of every "
                   "container type of the C17 matrix equals the conjunction of its parts. observed.relocations = byte relocations performed")
    return core.finish("C14", tier, "exploration", cov, viols, inc, t0, ASSUME_SAN, min_evals=1000)


def c20_check(tier):
    t0 = time.time()
    cov, viols, inc = c20.run(tier)
    return core.finish("C20", tier, "exploration", cov, viols, inc, t0,
                       ["ThreadSanitizer samples schedules; a race needing an interleaving never produced is missed", "positive control must fire, otherwise inconclusive"],
                       min_evals=1000)


def all_quick_specs():
    cfgs = (list(vec.QUICK) + sets.FS_QUICK + sets.SS_SPACE_QUICK + sets.SS_HIST_QUICK + sets.HG_QUICK + sets.COST_QUICK + vec.GROWTH_QUICK +
            vec.ALIAS_QUICK + vec.LIMITS_QUICK + vec.FAULT_QUICK + sets.SETFAULT_QUICK + vec.SWAP2_QUICK + sets.ALGO_QUICK + sets.ALGO_OPTIONAL + sets.REALLOC_DIRECT + sets.NESTED_QUICK + sets.GROWTH_HUGE)
    return [c.spec() for c in cfgs]


def setup():
    t0 = time.time()
    specs = all_quick_specs()
    for extra in EXTRA_SETUP:
        specs += extra()
    core.build_many(specs)
    print("setup: %d binaries ready in %.0fs" % (len(specs), time.time() - t0))
    return 0


def all_thorough_specs():
    cfgs = (vec.THOROUGH_EXTRA + sets.FS_THOROUGH + sets.SS_SPACE_THOROUGH + sets.SS_HIST_THOROUGH + sets.HG_THOROUGH + sets.COST_THOROUGH + vec.GROWTH_THOROUGH +
            vec.ALIAS_THOROUGH + vec.LIMITS_THOROUGH + vec.FAULT_THOROUGH + sets.SETFAULT_THOROUGH + vec.SWAP2_THOROUGH + sets.ALGO_THOROUGH + sets.NESTED_THOROUGH + sets.GROWTH_HUGE_THOROUGH)
    return [c.spec() for c in cfgs] + [c16.spec(b) for b in c16.matrix("thorough")] + [c20.spec("clang++-14")] + [fuzz.spec_of(c) for c in vec.FUZZ_CFGS + sets.FUZZ_FS + sets.FUZZ_SS]


def setup_thorough():
    t0 = time.time()
    specs = all_thorough_specs()
    core.build_many(specs)
    print("setup-thorough: %d binaries ready in %.0fs" % (len(specs), time.time() - t0))
    return 0


def replay(path):
    """re-runs the single history / grid index named in a replay file and prints what the monitors say"""
    import json
    with open(path) as f:
        d = json.load(f)
    cfgname = d.get("cfg")
    if d.get("artifact"):
        # found by the coverage-guided stage: the libFuzzer artifact is the history; re-execute it with the fuzz binary of that configuration
        import os
        import subprocess
        for c in vec.FUZZ_CFGS + sets.FUZZ_FS + sets.FUZZ_SS:
            if c.name == cfgname:
                sp = fuzz.spec_of(c)
                b = core.build_many([sp])[sp["name"]]
                env = dict(os.environ)
                env.update(core.ASAN_ENV)
                outp = d["artifact"] + ".replay.jsonl"
                if os.path.exists(outp):
                    os.remove(outp)
                env["VF_FUZZ_OUT"] = outp
                if "--swap2-heavy" in d.get("args", []):
                    env["VF_FUZZ_SWAP2"] = "1"
                p = subprocess.run([b, d["artifact"]], stdout=subprocess.PIPE, stderr=subprocess.STDOUT, env=env, text=True)
                n = 0
                if os.path.exists(outp):
                    for line in open(outp):
                        r = json.loads(line)
                        if r.get("t") == "viol":
                            n += 1
                            print("monitor %s  sig %s  op#%s\n   %s\n   %s" % (r.get("mon"), r.get("sig"), r.get("op"), r.get("desc"), r.get("detail")))
                if p.returncode != 0 and n == 0:
                    print("process died: %s\n%s" % (core.classify_death(p.returncode, p.stdout), p.stdout[-1500:]))
                if p.returncode == 0:
                    print("replay of artifact %s: no monitor fired" % d["artifact"])
                return 0 if p.returncode == 0 else 1
        print("configuration %s is not in the fuzz tables" % cfgname)
        return 2
    if not cfgname or d.get("hist") is None:
        print("replay file has no (configuration, history index): %s" % json.dumps(d)[:400])
        return 2
    pools = (list(vec.QUICK) + vec.THOROUGH_EXTRA + sets.FS_QUICK + sets.FS_THOROUGH + sets.SS_SPACE_QUICK + sets.SS_SPACE_THOROUGH + sets.SS_HIST_QUICK + sets.SS_HIST_THOROUGH +
             sets.HG_QUICK + sets.HG_THOROUGH + sets.COST_QUICK + sets.COST_THOROUGH + vec.GROWTH_QUICK + vec.GROWTH_THOROUGH + vec.ALIAS_QUICK + vec.ALIAS_THOROUGH +
             vec.LIMITS_QUICK + vec.LIMITS_THOROUGH + vec.FAULT_QUICK + vec.FAULT_THOROUGH + sets.SETFAULT_QUICK + sets.SETFAULT_THOROUGH + vec.SWAP2_QUICK + vec.SWAP2_THOROUGH +
             sets.ALGO_QUICK + sets.ALGO_THOROUGH + sets.REALLOC_DIRECT)
    cobj = None
    for c in pools:
        if c.name == cfgname:
            cobj = c
    if cobj is None:
        print("configuration %s is not in the tables" % cfgname)
        return 2
    sp = cobj.spec()
    b = core.build_many([sp])[sp["name"]]
    args = [a for a in d.get("args", [])]
    if "--ops" not in args:
        args = ["--ops", "80" if sp["name"].startswith("vh_") or sp["name"].startswith("ss_") else "60"] + args
    h = int(d["hist"])
    r = core.run_history_range(b, cfgname, int(d.get("seed", core.SEED)), h, h + 1, args, 900, 2)
    for v in r["viols"]:
        print("monitor %s  sig %s  op#%s\n   %s\n   %s" % (v.get("mon"), v.get("sig"), v.get("op"), v.get("desc"), v.get("detail")))
    for c in r["crashes"]:
        print("process died: %s during %s (%s)\n%s" % (c["what"], c.get("sig"), c.get("desc"), c.get("stderr", "")[-1500:]))
    if not r["viols"] and not r["crashes"]:
        print("replay of %s history %d: no monitor fired" % (cfgname, h))
        return 0
    return 1


EXTRA_SETUP = [lambda: [c.spec() for c in sets.DEFAULTS_QUICK + sets.TINY_QUICK], lambda: [c16.spec(b) for b in c16.matrix("quick")], lambda: [c20.spec()], lambda: [fuzz.spec_of(c) for c in vec.FUZZ_QUICK + sets.fuzz_cfgs('fs', 'quick') + sets.fuzz_cfgs('ss', 'quick')]]

CHECKS = {"C01": c01, "C02": c02, "C05": c05, "C06": c06, "C07": c07, "C03": c03, "C04": c04, "C11": c11, "C12": c12, "C19": c19, "C18": c18, "C10": c10, "C08": c08, "C09": c09, "C13": c13, "C15": c15, "C16": c16_check, "C17": c17_check, "C14": c14, "C20": c20_check}
