"""C17: static contract.  A generated probe program instantiates the type matrix and PRINTS the compile-time constants
(sizeof, traits, noexcept results); this independent oracle, written from the statement, computes the expected value of
every cell from (sizeof T, alignof T, category, N, size_type) and compares.  No code is shared with amc."""
import concurrent.futures as cf
import os
import subprocess
import time

from . import core

PTR = 8  # sizeof(void*) == alignof(void*) on this platform (checked by the probe itself)

# category -> attributes the oracle reasons with
#   tc: trivially copyable, decl: declared trivially_relocatable (True/False/None), nmc/nma: nothrow move ctor / move assignment, tdes: trivially destructible
CATS = {
    0: dict(name="trivial", tc=True, decl=None, nmc=True, nma=True, tdes=True),
    1: dict(name="TR", tc=False, decl=True, nmc=True, nma=True, tdes=True),
    2: dict(name="nonTR", tc=False, decl=None, nmc=True, nma=True, tdes=False),
    3: dict(name="throwing_move", tc=False, decl=None, nmc=False, nma=False, tdes=False),
    4: dict(name="opted_out", tc=True, decl=False, nmc=True, nma=True, tdes=True),
    5: dict(name="TR_throwing_move", tc=False, decl=True, nmc=False, nma=False, tdes=False),
    # trivial (defaulted) copy/move constructors and destructor, but user-provided assignment operators: not trivially copyable, no declaration -> not relocatable
    6: dict(name="user_assignment_only", tc=False, decl=None, nmc=True, nma=True, tdes=True),
    # its own noexcept swap (found by ADL) but move operations that may throw: swapping two inline vectors of unequal size also move-constructs
    7: dict(name="own_swap_throwing_move", tc=False, decl=None, nmc=False, nma=False, tdes=False, nsw=True),
    # its own noexcept swap, nothrow move constructor, move assignment that may throw
    8: dict(name="own_swap_throwing_move_assign", tc=False, decl=None, nmc=True, nma=False, tdes=False, nsw=True),
    # its own swap that may throw, although the move operations are noexcept
    9: dict(name="own_throwing_swap_nothrow_moves", tc=False, decl=None, nmc=True, nma=True, tdes=False, nsw=False),
}

PRELUDE = r'''
#include <amc/fixedcapacityvector.hpp>
#include <amc/flatset.hpp>
#include <amc/smallvector.hpp>
#include <amc/vector.hpp>
#ifdef AMC_SMALLSET
#include <amc/smallset.hpp>
#endif
#include <cstdint>
#include <cstdio>
#include <functional>
#include <set>
#include <type_traits>
#include <utility>

template <int SZ, int AL, int CAT> struct El;
template <int SZ, int AL> struct alignas(AL) El<SZ, AL, 0> { char b[SZ]; };
template <int SZ, int AL> struct alignas(AL) El<SZ, AL, 1> {
  char b[SZ];
  El(); El(const El &); El(El &&) noexcept; El &operator=(const El &); El &operator=(El &&) noexcept;
  typedef std::true_type trivially_relocatable;
};
template <int SZ, int AL> struct alignas(AL) El<SZ, AL, 2> {
  char b[SZ];
  El(); El(const El &); El(El &&) noexcept; El &operator=(const El &); El &operator=(El &&) noexcept; ~El();
};
template <int SZ, int AL> struct alignas(AL) El<SZ, AL, 3> {
  char b[SZ];
  El(); El(const El &); El(El &&) noexcept(false); El &operator=(const El &); El &operator=(El &&) noexcept(false); ~El();
};
template <int SZ, int AL> struct alignas(AL) El<SZ, AL, 4> { char b[SZ]; typedef std::false_type trivially_relocatable; };
template <int SZ, int AL> struct alignas(AL) El<SZ, AL, 5> {
  char b[SZ];
  El(); El(const El &); El(El &&) noexcept(false); El &operator=(const El &); El &operator=(El &&) noexcept(false); ~El();
  typedef std::true_type trivially_relocatable;
};
template <int SZ, int AL> struct alignas(AL) El<SZ, AL, 6> {
  char b[SZ];
  El() = default; El(const El &) = default; El(El &&) = default; ~El() = default;
  El &operator=(const El &) noexcept; El &operator=(El &&) noexcept;
};
template <int SZ, int AL> struct alignas(AL) El<SZ, AL, 7> {
  char b[SZ];
  El(); El(const El &); El(El &&) noexcept(false); El &operator=(const El &); El &operator=(El &&) noexcept(false); ~El();
  friend void swap(El &, El &) noexcept {}
};
template <int SZ, int AL> struct alignas(AL) El<SZ, AL, 8> {
  char b[SZ];
  El(); El(const El &); El(El &&) noexcept; El &operator=(const El &); El &operator=(El &&) noexcept(false); ~El();
  friend void swap(El &, El &) noexcept {}
};
template <int SZ, int AL> struct alignas(AL) El<SZ, AL, 9> {
  char b[SZ];
  El(); El(const El &); El(El &&) noexcept; El &operator=(const El &); El &operator=(El &&) noexcept; ~El();
  friend void swap(El &, El &) noexcept(false) {}
};
struct FixedNonTR { FixedNonTR(); FixedNonTR(const FixedNonTR &); FixedNonTR(FixedNonTR &&) noexcept; ~FixedNonTR(); int x; };
struct StatefulNonTrivialCmp {  // a comparator that is not trivially relocatable
  int dir;
  StatefulNonTrivialCmp(); StatefulNonTrivialCmp(const StatefulNonTrivialCmp &); StatefulNonTrivialCmp &operator=(const StatefulNonTrivialCmp &); ~StatefulNonTrivialCmp();
  template <class T> bool operator()(const T &, const T &) const;
};
struct StatefulTrivialCmp {  // stateful but trivially copyable: relocatable
  int dir;
  template <class T> bool operator()(const T &, const T &) const;
};
struct EmptyNonTrivialCmp {  // empty but with a user-provided copy constructor: not relocatable without a declaration
  EmptyNonTrivialCmp(); EmptyNonTrivialCmp(const EmptyNonTrivialCmp &); EmptyNonTrivialCmp &operator=(const EmptyNonTrivialCmp &);
  template <class T> bool operator()(const T &, const T &) const;
};
template <class V> struct SwapNoexcept { static const bool value = noexcept(std::declval<V &>().swap(std::declval<V &>())); };

template <class T> void row_T(const char *t) {
  printf("T %s sizeof=%zu alignof=%zu tr=%d tcopy=%d tdes=%d nmc=%d nma=%d pair_self=%d pair_int=%d", t, sizeof(T), alignof(T), (int)amc::is_trivially_relocatable<T>::value,
         (int)std::is_trivially_copyable<T>::value, (int)std::is_trivially_destructible<T>::value, (int)std::is_nothrow_move_constructible<T>::value,
         (int)std::is_nothrow_move_assignable<T>::value, (int)amc::is_trivially_relocatable<std::pair<T, T> >::value, (int)amc::is_trivially_relocatable<std::pair<T, int> >::value);
  printf(" pair_with_nonTR=%d pair_nonTR_first=%d pair_nested=%d tr_const=%d\n", (int)amc::is_trivially_relocatable<std::pair<T, FixedNonTR> >::value,
         (int)amc::is_trivially_relocatable<std::pair<FixedNonTR, T> >::value, (int)amc::is_trivially_relocatable<std::pair<std::pair<T, T>, int> >::value,
         (int)amc::is_trivially_relocatable<const T>::value);
}
template <class T, unsigned long long N, class S> void row_SV(const char *t, const char *s) {
  typedef amc::SmallVector<T, N, amc::allocator<T>, S> SV;
  typedef amc::vector<T, amc::allocator<T>, S> V;
  printf("SV %s N=%llu S=%s sizeof_sv=%zu sizeof_v=%zu mc=%d ma=%d sw=%d tr=%d sizetype=%zu\n", t, N, s, sizeof(SV), sizeof(V), (int)std::is_nothrow_move_constructible<SV>::value,
         (int)std::is_nothrow_move_assignable<SV>::value, (int)SwapNoexcept<SV>::value, (int)amc::is_trivially_relocatable<SV>::value, sizeof(typename SV::size_type));
}
template <class T, unsigned long long N> void row_FV(const char *t) {
  typedef amc::FixedCapacityVector<T, N> FV;
  printf("FV %s N=%llu tdes=%d st_size=%zu st_unsigned=%d mc=%d ma=%d sw=%d tr=%d\n", t, N, (int)std::is_trivially_destructible<FV>::value, sizeof(typename FV::size_type),
         (int)std::is_unsigned<typename FV::size_type>::value, (int)std::is_nothrow_move_constructible<FV>::value, (int)std::is_nothrow_move_assignable<FV>::value,
         (int)SwapNoexcept<FV>::value, (int)amc::is_trivially_relocatable<FV>::value);
}
template <class T> void row_SETS(const char *t) {
  typedef amc::FlatSet<T, std::less<T>, amc::allocator<T>, amc::vector<T> > F1;
  typedef amc::FlatSet<T, std::less<T>, amc::allocator<T>, amc::SmallVector<T, 3> > F2;
  typedef amc::FlatSet<T, std::less<T>, amc::vec::EmptyAlloc, amc::FixedCapacityVector<T, 5> > F3;
  typedef amc::FlatSet<T, StatefulNonTrivialCmp, amc::allocator<T>, amc::vector<T> > F4;
  typedef amc::FlatSet<T, StatefulTrivialCmp, amc::allocator<T>, amc::SmallVector<T, 3> > F5;
  typedef amc::FlatSet<T, StatefulTrivialCmp, amc::vec::EmptyAlloc, amc::FixedCapacityVector<T, 5> > F6;
  typedef amc::FlatSet<T, EmptyNonTrivialCmp, amc::allocator<T>, amc::vector<T> > F7;
  typedef amc::FlatSet<T, StatefulTrivialCmp, amc::allocator<T>, amc::vector<T> > F8;
  printf("FS %s over_vector=%d over_small=%d over_fixed=%d nontrivial_cmp=%d", t, (int)amc::is_trivially_relocatable<F1>::value, (int)amc::is_trivially_relocatable<F2>::value,
         (int)amc::is_trivially_relocatable<F3>::value, (int)amc::is_trivially_relocatable<F4>::value);
  printf(" stateful_cmp_over_small=%d stateful_cmp_over_fixed=%d empty_nontrivial_cmp=%d stateful_cmp_over_vector=%d", (int)amc::is_trivially_relocatable<F5>::value,
         (int)amc::is_trivially_relocatable<F6>::value, (int)amc::is_trivially_relocatable<F7>::value, (int)amc::is_trivially_relocatable<F8>::value);
#ifdef AMC_SMALLSET
  typedef amc::SmallSet<T, 3, std::less<T>, amc::allocator<T>, F1> S1;
  typedef amc::SmallSet<T, 3, std::less<T>, amc::allocator<T> > S2;
  typedef amc::SmallSet<T, 3, StatefulNonTrivialCmp, amc::allocator<T>, F4> S3;
  printf(" ss_flat=%d ss_stdset=%d ss_nontrivial_cmp=%d", (int)amc::is_trivially_relocatable<S1>::value, (int)amc::is_trivially_relocatable<S2>::value, (int)amc::is_trivially_relocatable<S3>::value);
#endif
  printf("\n");
}
'''

SHAPES = [(1, 1), (2, 1), (2, 2), (3, 1), (4, 1), (4, 2), (4, 4), (5, 1), (6, 2), (7, 1), (8, 1), (8, 4), (8, 8), (9, 1), (10, 2), (12, 4), (13, 1), (16, 4), (16, 8), (16, 16),
          (17, 1), (20, 4), (24, 8), (24, 4), (32, 16), (48, 16)]
SV_NS = [0, 1, 2, 3, 4, 5, 6, 7, 8, 9, 12, 15, 16, 17, 24, 31, 32, 40]
FV_NS = [1, 2, 3, 5, 8, 40, 254, 255, 256, 257, 65535, 65536]
STYPES = ["uint8_t", "int8_t", "uint16_t", "int16_t", "uint32_t", "uint64_t"]


def tname(sz, al, cat):
    return "El<%d,%d,%d>" % (sz, al, cat)


def cells(tier):
    """the matrix: list of ('T'|'SV'|'FV'|'SETS', args)"""
    out = []
    shapes = SHAPES if tier == "thorough" else SHAPES[::2] + [(16, 16), (12, 4), (3, 1)]
    shapes = sorted(set(shapes))
    for (sz, al) in shapes:
        for cat in CATS:
            out.append(("T", (sz, al, cat)))
            out.append(("SETS", (sz, al, cat)))
            for i, n in enumerate(SV_NS):
                # default size type for every N, the other size types pairwise
                out.append(("SV", (sz, al, cat, n, "uint32_t")))
                st = STYPES[(i + sz + cat) % len(STYPES)]
                if st != "uint32_t" and n < 127:
                    out.append(("SV", (sz, al, cat, n, st)))
            for n in FV_NS:
                if n * sz > (1 << 22) and tier != "thorough":
                    continue
                out.append(("FV", (sz, al, cat, n)))
    return out


def gen_source(chunk):
    lines = [PRELUDE, "int main() {", '  printf("PLATFORM ptr=%zu ptralign=%zu\\n", sizeof(void *), alignof(void *));']
    for kind, a in chunk:
        if kind == "T":
            lines.append('  row_T<%s >("%s");' % (tname(*a), tname(*a)))
        elif kind == "SETS":
            lines.append('  row_SETS<%s >("%s");' % (tname(*a), tname(*a)))
        elif kind == "SV":
            sz, al, cat, n, st = a
            lines.append('  row_SV<%s, %dULL, %s>("%s", "%s");' % (tname(sz, al, cat), n, st, tname(sz, al, cat), st))
        else:
            sz, al, cat, n = a
            lines.append('  row_FV<%s, %dULL>("%s");' % (tname(sz, al, cat), n, tname(sz, al, cat)))
    lines.append("  return 0;\n}")
    return "\n".join(lines)


# ----------------------------------------------------------------------------- the oracle (from the statement only)

def roundup(x, a):
    return (x + a - 1) // a * a


def is_tr(cat):
    c = CATS[cat]
    if c["decl"] is not None:
        return c["decl"]
    return c["tc"]


def st_size(name):
    return {"uint8_t": 1, "int8_t": 1, "uint16_t": 2, "int16_t": 2, "uint32_t": 4, "uint64_t": 8}[name]


def expect_T(sz, al, cat):
    tr = is_tr(cat)
    return {"sizeof": sz, "alignof": al, "tr": int(tr), "tcopy": int(CATS[cat]["tc"]), "tdes": int(CATS[cat]["tdes"]), "nmc": int(CATS[cat]["nmc"]), "nma": int(CATS[cat]["nma"]),
            "pair_self": int(tr), "pair_int": int(tr), "pair_with_nonTR": 0, "pair_nonTR_first": 0, "pair_nested": int(tr)}


def expect_moves(cat, n):
    c = CATS[cat]
    tr = is_tr(cat)
    mc = n == 0 or tr or c["nmc"]
    ma = n == 0 or tr or (c["nmc"] and c["nma"])
    nsw = c.get("nsw", c["nmc"] and c["nma"])  # nothrow swappable: std::swap needs nothrow move construction and assignment, unless the type has its own swap
    sw = n == 0 or (c["nmc"] and nsw)  # documented: nothrow move constructible and nothrow swappable
    return int(mc), int(ma), int(sw)


def check_SV(vals, sz, al, cat, n, st):
    errs = []
    mc, ma, sw = expect_moves(cat, n)
    for k, e in (("mc", mc), ("ma", ma), ("sw", sw)):
        if vals[k] != e:
            errs.append("noexcept %s = %d, documented condition gives %d" % (k, vals[k], e))
    etr = 1 if n == 0 else int(is_tr(cat))
    if vals["tr"] != etr:
        errs.append("trivially_relocatable typedef = %d, conjunction of parts = %d" % (vals["tr"], etr))
    if vals["sizetype"] != st_size(st):
        errs.append("size_type has %d bytes, requested %s" % (vals["sizetype"], st))
    sv, v = vals["sizeof_sv"], vals["sizeof_v"]
    if n * sz <= PTR:
        if sv > v:
            errs.append("sizeof(SmallVector)=%d > sizeof(vector)=%d although %d elements fit in the bytes of a pointer" % (sv, v, n))
    else:
        bound = roundup(v + n * sz, max(al, PTR))
        if sv > bound:
            errs.append("sizeof(SmallVector)=%d exceeds sizeof(vector)=%d + N slots (%d) + alignment padding = %d" % (sv, v, n * sz, bound))
    return errs


def check_FV(vals, sz, al, cat, n):
    errs = []
    if vals["tdes"] != int(CATS[cat]["tdes"]):
        errs.append("FixedCapacityVector trivially destructible = %d, T trivially destructible = %d" % (vals["tdes"], int(CATS[cat]["tdes"])))
    want = 1 if n <= 255 else 2 if n <= 65535 else 4 if n <= 4294967295 else 8
    if vals["st_size"] != want or vals["st_unsigned"] != 1:
        errs.append("size_type has %d bytes (unsigned=%d), the smallest unsigned type holding %d has %d" % (vals["st_size"], vals["st_unsigned"], n, want))
    mc, ma, sw = expect_moves(cat, n)
    for k, e in (("mc", mc), ("ma", ma), ("sw", sw)):
        if vals[k] != e:
            errs.append("noexcept %s = %d, documented condition gives %d" % (k, vals[k], e))
    if vals["tr"] != int(is_tr(cat)):
        errs.append("trivially_relocatable typedef = %d, T relocatable = %d" % (vals["tr"], int(is_tr(cat))))
    return errs


def check_SETS(vals, cat, has_smallset):
    errs = []
    tr = int(is_tr(cat))
    exp = {"over_vector": 1, "over_small": tr, "over_fixed": tr, "nontrivial_cmp": 0, "stateful_cmp_over_small": tr, "stateful_cmp_over_fixed": tr,
           "empty_nontrivial_cmp": 0, "stateful_cmp_over_vector": 1}
    if has_smallset:
        exp.update({"ss_flat": tr, "ss_stdset": 0, "ss_nontrivial_cmp": 0})
    for k, e in exp.items():
        if vals.get(k) != e:
            errs.append("%s: trivially_relocatable = %s, conjunction of parts = %d" % (k, vals.get(k), e))
    return errs


def parse_kv(parts):
    d = {}
    for p in parts:
        if "=" in p:
            k, v = p.split("=", 1)
            try:
                d[k] = int(v)
            except ValueError:
                d[k] = v
    return d


def parse_name(t):
    a = t[3:-1].split(",")
    return int(a[0]), int(a[1]), int(a[2])


def run(tier):
    stds = ["c++17", "c++11"] if tier == "quick" else ["c++11", "c++14", "c++17", "c++20"]
    compilers = ["g++"] if tier == "quick" else ["g++", "clang++-14"]
    allcells = cells(tier)
    nchunk = 12 if tier == "quick" else 16
    chunks = [allcells[i::nchunk] for i in range(nchunk)]
    specs = []
    for comp in compilers:
        for std in stds:
            for ci, ch in enumerate(chunks):
                specs.append({"name": "static_%s_%s_%d" % ("gcc" if comp == "g++" else "clang", std.replace("c++", "cxx"), ci), "source": gen_source(ch), "std": std,
                              "compiler": comp, "san": "none", "opt": "-O0", "extra": ["-DAMC_NONSTD_FEATURES"], "_std": std, "_comp": comp})
    bins = core.build_many(specs)
    viols, inconc = [], []
    n_rows = 0
    samples = []
    distinct = set()

    def runone(s):
        p = subprocess.run([bins[s["name"]]], stdout=subprocess.PIPE, stderr=subprocess.PIPE, timeout=300)
        return s, p.returncode, p.stdout.decode()

    with cf.ThreadPoolExecutor(max_workers=core.NCPU) as ex:
        for s, rc, out in ex.map(runone, specs):
            if rc != 0:
                inconc.append({"why": "probe %s exited with %d" % (s["name"], rc)})
                continue
            has_ss = s["_std"] in ("c++17", "c++20")
            for line in out.split("\n"):
                parts = line.split()
                if not parts:
                    continue
                kind = parts[0]
                if kind == "PLATFORM":
                    d = parse_kv(parts[1:])
                    if d.get("ptr") != PTR or d.get("ptralign") != PTR:
                        inconc.append({"why": "unexpected platform pointer size %s" % d})
                    continue
                t = parts[1]
                sz, al, cat = parse_name(t)
                vals = parse_kv(parts[2:])
                n_rows += 1
                errs = []
                if kind == "T":
                    exp = expect_T(sz, al, cat)
                    for k, e in exp.items():
                        if vals.get(k) != e:
                            errs.append("%s = %s, expected %d" % (k, vals.get(k), e))
                    key = "T/%s" % CATS[cat]["name"]
                elif kind == "SV":
                    errs = check_SV(vals, sz, al, cat, vals["N"], vals["S"])
                    key = "SmallVector/%s/N%s" % (CATS[cat]["name"], "0" if vals["N"] == 0 else "fits_pointer" if vals["N"] * sz <= PTR else "inline_array")
                elif kind == "FV":
                    errs = check_FV(vals, sz, al, cat, vals["N"])
                    key = "FixedCapacityVector/%s/%s" % (CATS[cat]["name"], "N<=255" if vals["N"] <= 255 else "N<=65535" if vals["N"] <= 65535 else "N>65535")
                else:
                    errs = check_SETS(vals, cat, has_ss)
                    key = "sets/%s" % CATS[cat]["name"]
                distinct.add((s["_std"], s["_comp"], key, sz, al))
                if len(samples) < 4 and kind in ("SV", "FV") and n_rows % 97 == 0:
                    samples.append(line)
                for e in errs:
                    viols.append({"key": "static.%s|%s" % (kind, key), "detail": "%s (%s %s): %s" % (line[:200], s["_std"], s["_comp"], e)})
    cov = {
        "evaluations": n_rows, "distinct_nontrivial": len(distinct), "samples": samples or ["(none)"],
        "explanation": ("compile-time constants of %d template instantiations per (standard, compiler) - element types of %d size/alignment shapes x %d categories, "
                        "SmallVector N in %s with 6 size types, FixedCapacityVector N in %s, FlatSet/SmallSet relocatability - are printed by generated probe programs "
                        "and compared with an independent oracle written from the property statement" % (len(allcells), len(set((c[1][0], c[1][1]) for c in allcells)),
                                                                                                         len(CATS), SV_NS, FV_NS)),
        "rule": "one evaluation = one printed row (one instantiation); distinct = (standard, compiler, container kind, element category, N class, element shape)",
        "standards": stds, "compilers": compilers, "exhaustive": not viols and not inconc,
    }
    return cov, viols, inconc
