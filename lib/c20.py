"""C20: reader threads over a shared const container under ThreadSanitizer, with a positive control."""
import concurrent.futures as cf
import json
import os
import re
import subprocess
import tempfile

from . import core

NCASES = 26


def spec(compiler="g++"):
    return {"name": "tsan_readers_" + ("gcc" if compiler == "g++" else "clang"), "source": '#include "tsan_readers_main.cpp"\n', "std": "c++17", "compiler": compiler,
            "san": "tsan", "extra": ["-DAMC_NONSTD_FEATURES"]}


REPORT_RE = re.compile(r"WARNING: ThreadSanitizer: ([a-z \-]+)")
FRAME_RE = re.compile(r"#\d+ (\S+) ")


def dedupe_reports(stderr):
    """split TSan output into report blocks, key = kind + first amc/ts frames of both stacks (line numbers stripped)"""
    blocks = stderr.split("==================")
    keys = {}
    for b in blocks:
        m = REPORT_RE.search(b)
        if not m:
            continue
        frames = [f for f in FRAME_RE.findall(b) if not f.startswith("__") and "tsan" not in f.lower()]
        key = m.group(1).strip() + "|" + ";".join(frames[:2])
        keys.setdefault(key, b[:3000])
    return keys


def run(tier):
    compilers = ["g++"] if tier == "quick" else ["g++", "clang++-14"]
    specs = [spec(c) for c in compilers]
    bins = core.build_many(specs)
    iters = 2000 if tier == "quick" else 6000
    reps = 3 if tier == "quick" else 10
    viols, inconc = [], []
    env = dict(os.environ)
    env["TSAN_OPTIONS"] = "halt_on_error=0 exitcode=66 second_deadlock_stack=1"
    cases = []
    controls_ok = 0
    for s in specs:
        b = bins[s["name"]]
        # positive control: the monitor must be alive
        p = subprocess.run([b, "--control", "--seed", str(core.SEED)], stdout=subprocess.PIPE, stderr=subprocess.PIPE, env=env, timeout=600)
        if "ThreadSanitizer: data race" not in p.stderr.decode("utf-8", "replace"):
            # retry once: races are schedule dependent
            p = subprocess.run([b, "--control", "--seed", str(core.SEED + 1)], stdout=subprocess.PIPE, stderr=subprocess.PIPE, env=env, timeout=600)
        if "ThreadSanitizer: data race" in p.stderr.decode("utf-8", "replace"):
            controls_ok += 1
        else:
            inconc.append({"why": "positive control (racy mutable cache) produced no ThreadSanitizer report with %s: monitor not alive" % s["compiler"]})

        def one(rng):
            lo, hi = rng
            d = tempfile.mkdtemp(prefix="tsan-", dir=core.BUILD)
            out = os.path.join(d, "out.jsonl")
            try:
                q = subprocess.run([b, "--from", str(lo), "--to", str(hi), "--iters", str(iters), "--reps", str(reps), "--seed", str(core.SEED), "--out", out],
                                   stdout=subprocess.PIPE, stderr=subprocess.PIPE, env=env, timeout=3600)
                recs = []
                if os.path.exists(out):
                    with open(out) as f:
                        recs = [json.loads(x) for x in f if x.strip()]
                return lo, hi, q.returncode, q.stderr.decode("utf-8", "replace"), recs
            except subprocess.TimeoutExpired:
                return lo, hi, -999, "", []
            finally:
                import shutil
                shutil.rmtree(d, ignore_errors=True)

        ranges = [(i, min(NCASES, i + 4)) for i in range(0, NCASES, 4)]
        with cf.ThreadPoolExecutor(max_workers=2) as ex:
            for lo, hi, rc, err, recs in ex.map(one, ranges):
                cases += [dict(r, compiler=s["compiler"]) for r in recs]
                if rc == -999:
                    inconc.append({"why": "watchdog fired for cases %d..%d" % (lo, hi)})
                    continue
                reports = dedupe_reports(err)
                for k, blk in reports.items():
                    viols.append({"key": "tsan:" + k, "detail": "ThreadSanitizer report while threads only read the shared container (cases %d..%d, %s)" % (lo, hi, s["compiler"]),
                                  "report": blk, "cases": [lo, hi]})
                if rc not in (0, 66):
                    viols.append({"key": "crash:%s|tsan-readers" % core.classify_death(rc, err), "detail": "reader process died: %s" % core.classify_death(rc, err), "stderr_tail": err[-1500:]})
                if len(recs) != hi - lo and rc in (0, 66):
                    inconc.append({"why": "cases %d..%d: %d of %d case records" % (lo, hi, len(recs), hi - lo)})
    ops = max([c["reader_ops"] for c in cases] or [0])
    total_ops = sum(c["bursts"] for c in cases) * 50
    overlaps = sum(c["overlapping_burst_pairs"] for c in cases)
    cov = {
        "evaluations": total_ops, "distinct_nontrivial": len(set((c["case"], c["compiler"]) for c in cases)),
        "overlapping_burst_pairs_observed": overlaps, "positive_controls_detected": controls_ok,
        "samples": [c for c in cases[:3]] or ["(no case ran)"],
        "rule": ("%d (container type, state) cases x thread counts {2,4,8,16} x %d repetitions x %d reader iterations per thread; every thread runs const operations "
                 "(size/empty/capacity/data/iteration/operator[]/at/front/back/find/contains/count/bounds/equal_range/comparisons/copy-construction) on one shared "
                 "const object and mutates only its own private object; ThreadSanitizer reports are de-duplicated by stack; bursts are stamped with a shared "
                 "atomic clock so that the number of pairs of bursts of different threads that overlapped in time is measured (evidence that reads were concurrent). "
                 "evaluations = reader iterations; distinct = (case, compiler)" % (NCASES, reps, iters)),
        "cases": cases,
    }
    if overlaps == 0 and not viols:
        inconc.append({"why": "no overlapping reader bursts were observed"})
    return cov, viols, inconc
