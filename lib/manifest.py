"""Generates /verif/MANIFEST.json from the table of implemented checks (run: python3 -m lib.manifest)."""
import json
import os

VERIF = os.path.dirname(os.path.dirname(os.path.abspath(__file__)))

NOTE_SAN = ("Trusted base: g++ 12 / clang 14 sanitizer runtimes, libstdc++ reference containers, the harness monitors under /verif/harness/mon. "
            "Held only on the executions produced; nothing is proved.")

CHECKS = {
    "C01": ("exploration", "5 C01", "differential runtime monitoring: random and coverage-guided (libFuzzer) operation histories vs std::vector model under ASan/UBSan",
            "Every public call of generated operation histories (40 configurations quick, 78 thorough: flavour x N x element category incl. raw int/double, over-aligned, 96-byte and "
            "throwing-move elements x size_type x allocator x range source (7 kinds incl. single-pass, non-contiguous random access and values of another type) x C++14/17/20) is compared step by step with std::vector; a coverage-guided stage (libFuzzer "
            "mutating the byte string every generator decision is read from; 4 configurations x 25k inputs quick, 16 x 150k thorough) drives the same engine and monitors; one history in twelve is large-scale (lengths up to 2800, inline capacities up to 1500); a defaults engine runs the library with its default template "
            "arguments (std::less, amc::allocator / std::allocator, default size_type) over int / 64-bit extremes / double / std::string / pair elements against std::vector; "
            "exploration is the right level because the property quantifies over unbounded histories."),
    "C02": ("exploration", "5 C02", "runtime monitoring: element identity/lifetime ledger + ASan/UBSan/LSan over random and coverage-guided (libFuzzer) histories",
            "Instrumented element types record every constructor/assignment/destructor; the ledger is checked after every call and at the end of every history, in the "
            "vector, FlatSet and SmallSet engines and in the nested-containers engine (containers as elements of containers); a tiny-element engine covers "
            "non-relocatable elements of 4 and 8 bytes (address, value and life cycle in a side table), incl. SmallVectors whose inline storage is the pointer word."),
    "C05": ("exploration", "5 C05", "runtime monitoring: entitlement shadow + allocator ledger + malloc hook over random and coverage-guided (libFuzzer) histories",
            "The inline-storage promise is monitored on every call of histories steered around N (element kinds incl. potentially-throwing moves, 96-byte and over-aligned elements)."),
    "C06": ("exploration", "5 C06", "runtime monitoring: allocator ledger (pointer->count, family) + LeakSanitizer over random and coverage-guided histories, allocator-fault sweep, reallocate grid",
            "Every allocate/deallocate/reallocate of instrumented allocators is checked online; outstanding blocks at the end of each history; direct grid driver of "
            "BasicAllocatorWrapper::reallocate; the allocator-fault sweep of the vector fault engine is judged by the same ledger."),
    "C07": ("exploration", "5 C07", "runtime monitoring: capacity/address shadow + per-object event stamps over random and coverage-guided (libFuzzer) histories",
            "capacity(), data(), element addresses and identities are compared before/after every call; buffer hand-over also judged for swap2 in the state-pair grid."),
    "C03": ("exploration", "5 C03", "differential runtime monitoring: random FlatSet histories vs std::set model, comparator provenance, under ASan/UBSan",
            "Every call of generated histories over pools of FlatSets (comparators less/greater/coarse/stateful/transparent x underlying amc::vector/"
            "SmallVector/FixedCapacityVector/std::vector x element category) is compared with std::set built with the same comparator object; the sets of a pool get "
            "comparator objects in different states where the type has state; heterogeneous keys equivalent to a run of several elements; the non-standard accessors (at, data, operator[]) included; a defaults engine runs FlatSet with std::less / std::greater / std::less<> over "
            "int, 64-bit extremes, double, std::string and pair keys against std::set, incl. merges between sets ordered by different standard comparators and keys of other types."),
    "C04": ("exploration", "5 C04", "runtime monitoring: complete small-scope state-space execution of the real SmallSet + random histories vs std::set model",
            "Breadth-first execution of every operation from every reachable (content,state) of SmallSets with N<=3 over 5 keys, every ordered state pair under "
            "swap/compare/merge (second operand with a comparator object in another state), and random histories for N in {4,8} incl. transparent comparators with "
            "heterogeneous int / run keys; exhaustive inside the small scope, a sample beyond; a defaults engine runs SmallSet with the standard comparators "
            "(std::less, std::greater, std::less<>) and ordinary key types against std::set, incl. ranges from std::set / std::multiset and keys of other types."),
    "C11": ("exploration", "5 C11", "runtime monitoring: iterator-validity oracle (fresh walk) over the complete small-scope SmallSet state space + random histories",
            "Every iterator returned by the library is classified against a fresh begin()..end() walk before being dereferenced; walks and erase loops are "
            "capped by logical step counts; a self move-assignment during an erase costs the element its value."),
    "C12": ("exploration", "5 C12", "runtime monitoring: complete enumeration of (content, hint, value, form) executed on the real FlatSet, judged against plain insert and std::set",
            "All subsets of a 6-key (thorough: 9-key) domain x all hints x all values x 3 forms per (comparator, underlying vector) configuration; exhaustive in that scope."),
    "C18": ("exploration", "5 C18", "runtime monitoring: allocator-call / relocation counters with online bounds during append sweeps",
            "Counters on the instrumented allocators (or the malloc hook for stock allocators) and on element move constructors are judged after every single append; "
            "plus sweeps on full vectors of 0.7e9..4.29e9 one-byte elements living in a lazily committed mapping (32-bit signed/unsigned and 64-bit size types)."),
    "C19": ("exploration", "5 C19", "runtime monitoring: comparator-call counter read around every lookup / insertion, judged against the stated bounds",
            "Every key rank and gap for n<=64, sampled ranks up to 4096 (20000 thorough), every correct hint, inline SmallSets N=1..8 at every fill, SmallSets over a FlatSet in their large state; element types of 1, 2, 8, 24 and 96 bytes."),
    "C08": ("exploration", "5 C08", "runtime monitoring: complete boundary grid executed on the real containers with snapshot/ledger/canary oracles under ASan/UBSan",
            "Every fill near the limit x every growing operation x positions x counts (incl. size_type extremes and range lengths beyond the size_type maximum) for small N and 8-bit size types; the expected "
            "verdict is computed independently in uintmax_t; exhaustive inside that grid."),
    "C09": ("fault_enumeration", "5 C09", "fault injection: every index of the throwing-capable events (element construction/copy/assignment, allocator calls) of every scenario, judged by ledgers and snapshots",
            "Each scenario is first run fault-free to count its fault points, then re-run once per fault index; vectors (27 operation forms x 5 capacity states, C++14/17/20) and sets (13 forms); element kinds where only the copy constructor or only the copy assignment can throw; ranges of values of another type (the conversion throws); plus real "
            "malloc/realloc failures of amc::allocator for impossible capacities."),
    "C10": ("exploration", "5 C10", "differential runtime monitoring: complete small-scope grid of aliased calls vs std::vector fed with a pre-copied value, plus aliased calls in random and coverage-guided histories",
            "size x position x source index x count x spare-capacity mode x 11 call forms (incl. emplace from references to members of an element) per configuration, C++14/17/20; exhaustive in that scope."),
    "C13": ("exploration", "5 C13", "runtime monitoring: state-pair grid of swap2 over configuration pairs with model/ledger/canary oracles, plus swap2-heavy random and coverage-guided histories, under ASan/UBSan",
            "Every ordered pair of operand states (inline, heap exact, heap with room, heap cleared, adopted small buffer) x sizes for 19 (thorough 42) type pairs (incl. mixed growing policies and 96-byte elements), "
            "both call directions, with follow-up scripts; impossible exchanges must throw and change nothing."),
    "C15": ("fault_enumeration", "5 C15", "fault injection + differential: every amc:: memory algorithm x length x iterator category x value category x throw index at -std=c++11/14/17/20 under ASan/UBSan",
            "The algorithm results are compared with the standard's wording and the element ledger proves clean-up after each injected constructor fault; homogeneous and "
            "converting (destination type constructed from another source type) ranges; counts given in the containers' narrow / signed / wide size types."),
    "C14": ("exploration", "5 C14", "runtime monitoring: containers relocated by memcpy at random quiescent points of monitored histories (differential re-run without relocation) + trait table vs conjunction of parts",
            "The byte-copied container continues the history under the model, ledger and sanitizer monitors; the abandoned block is poisoned and freed so that a stale "
            "self pointer is a use-after-free. A nested-containers engine lets outer amc vectors relocate inner amc containers according to their own declaration. Containers of over-aligned elements are relocated between addresses of different residue modulo the element alignment."),
    "C16": ("exploration", "5 C16", "differential runtime monitoring: byte comparison of transcripts of one generated script program across a build matrix, all under UBSan; feature probes",
            "{c++11,14,17,20} x {extras,pedantic} x {assert,NDEBUG} x {-O0,-O2}: 8 pairwise-covering builds quick, all 32 thorough; range arguments come from seven iterator source kinds and from ranges of another integral type of the same size; floating point fills are printed bit by bit."),
    "C17": ("other", "5 C17", "observed-value monitor: generated probe programs print compile-time constants, judged by an independent oracle written from the statement",
            "The property is decided by the compiler; the probe merely exposes what the compiler computed for a matrix of element shapes x categories x N x size_type x "
            "standard, which the oracle (lib/c17.py) re-derives from sizes and declared attributes only."),
    "C20": ("exploration", "5 C20", "ThreadSanitizer over reader threads sharing one const container, with a positive control and measured burst overlap",
            "26 (type, state) cases (incl. a comparator with const and non-const call operators and copies of a 160 KB vector through the stock allocator) x {2,4,8,16} threads; no race observed on the sampled schedules - not absence of races on all schedules."),
}

NA_REASON = "check not built yet in this session (engine under construction, see DESIGN.md section 5)"


def main():
    m = {
        "version": 1,
        "setup_cmd": "./check setup",
        "hooks": {"guard": "AMC_VERIF_HOOKS",
                  "enable": "no source hooks are needed: every observation goes through template parameters (element, allocator, comparator, size types) of the header-only library; checks compile their harness against /repo/include",
                  "baseline_off_cmd": "cmake --build /repo/_build && ctest --test-dir /repo/_build -j8 --timeout 900",
                  "source_commits": [], "add_only": True},
        "engines": [],
        "checks": [],
        "not_applicable": [],
        "notes": "All checks: ./check <id> quick|thorough ; exit 0 held / 1 violation / 2 inconclusive. VERIF_SEED honoured. Build cache under /verif/build keyed on the contents of /repo/include.",
    }
    for i in range(1, 21):
        pid = "C%02d" % i
        if pid in CHECKS:
            level, ref, tech, text = CHECKS[pid]
            m["checks"].append({
                "property_id": pid, "quick_cmd": "./check %s quick" % pid, "thorough_cmd": "./check %s thorough" % pid,
                "evidence_file": "/verif/evidence/%s.json" % pid, "replay_cmd_template": "./check replay {path}",
                "engine": "check", "level_claimed": {"category": level, "text": text, "design_ref": "DESIGN.md section " + ref},
                "level_note": NOTE_SAN, "technique": tech})
        else:
            m["not_applicable"].append({"property_id": pid, "reason": NA_REASON})
    with open(os.path.join(VERIF, "MANIFEST.json"), "w") as f:
        json.dump(m, f, indent=1)


if __name__ == "__main__":
    main()
