"""C16: the same script program built under a matrix of language levels / pedantic mode / assertions / optimisation; transcripts compared."""
import concurrent.futures as cf
import itertools
import os
import shutil
import subprocess
import tempfile
import time

from . import core

STDS = ["c++11", "c++14", "c++17", "c++20"]


def matrix(tier):
    full = [(s, e, n, o) for s in STDS for e in (1, 0) for n in (0, 1) for o in ("-O0", "-O2")]
    if tier == "thorough":
        return full
    # pairwise-covering selection of 8 builds
    return [("c++11", 1, 0, "-O0"), ("c++11", 0, 1, "-O2"), ("c++14", 1, 1, "-O2"), ("c++14", 0, 0, "-O0"),
            ("c++17", 1, 1, "-O0"), ("c++17", 0, 0, "-O2"), ("c++20", 1, 0, "-O2"), ("c++20", 0, 1, "-O0")]


def bname(b):
    return "%s_%s_%s_%s" % (b[0].replace("c++", "cxx"), "extras" if b[1] else "pedantic", "ndebug" if b[2] else "assert", b[3].strip("-"))


def spec(b):
    extra = []
    if b[1]:
        extra.append("-DAMC_NONSTD_FEATURES")
    if b[2]:
        extra.append("-DNDEBUG")
    return {"name": "script_" + bname(b), "source": '#include "script_main.cpp"\n', "std": b[0], "compiler": "g++",
            # the pre-C++17 builds select amc's own emulations of the memory algorithms: run them under ASan+LSan as well
            "san": "asan" if b[0] in ("c++11", "c++14") else "ubsan", "opt": b[3], "extra": extra}


def offers(b, section):
    if section == "STD":
        return True
    if section in ("STD17", "SMALLSET"):
        return b[0] in ("c++17", "c++20")
    if section == "EXTRAS":
        return bool(b[1])
    return True


PROBE_SRC = '#include <amc/smallset.hpp>\nint main() { amc::SmallSet<int, 2> s; s.insert(1); return static_cast<int>(s.size()); }\n'


def run(tier, nscripts):
    builds = matrix(tier)
    bins = core.build_many([spec(b) for b in builds])
    work = tempfile.mkdtemp(prefix="c16-", dir=core.BUILD)
    viols, inconc = [], []
    outs = {}

    def one(b):
        d = os.path.join(work, bname(b))
        os.makedirs(d)
        env = dict(os.environ)
        env.update(core.ASAN_ENV)
        p = subprocess.run([bins["script_" + bname(b)], "--from", "0", "--to", str(nscripts), "--seed", str(core.SEED), "--ops", "60", "--outdir", d],
                           stdout=subprocess.PIPE, stderr=subprocess.PIPE, env=env, timeout=1800)
        return b, d, p.returncode, p.stderr.decode("utf-8", "replace")

    try:
        with cf.ThreadPoolExecutor(max_workers=core.NCPU) as ex:
            for b, d, rc, err in ex.map(one, builds):
                if rc != 0:
                    viols.append({"key": "script.crash|%s" % core.classify_death(rc, err), "detail": "build %s: %s" % (bname(b), core.classify_death(rc, err)),
                                  "build": bname(b), "stderr_tail": err[-1500:]})
                    continue
                outs[b] = d
        compared = 0
        sample = []
        for section in ("STD", "STD17", "EXTRAS", "SMALLSET", "THROW"):
            group = [b for b in builds if b in outs and offers(b, section)]
            if len(group) < 2:
                continue
            ref = group[0]
            with open(os.path.join(outs[ref], section + ".txt")) as f:
                rtxt = f.read()
            if not sample and section == "STD":
                sample.append(rtxt[:1200])
            if len(rtxt) < 200 * 1:
                inconc.append({"why": "section %s of build %s is (nearly) empty" % (section, bname(ref))})
            rscripts = rtxt.split("=== script ")
            for b in group[1:]:
                compared += 1
                with open(os.path.join(outs[b], section + ".txt")) as f:
                    txt = f.read()
                if txt == rtxt:
                    continue
                scripts = txt.split("=== script ")
                first = None
                for i, (x, y) in enumerate(zip(rscripts, scripts)):
                    if x != y:
                        first = (i, x, y)
                        break
                if first is None:
                    first = (min(len(rscripts), len(scripts)), "(missing)", "(missing)")
                i, x, y = first
                head = x.split("\n")[1] if "\n" in x else "?"
                # first differing line
                dl = ""
                for lx, ly in zip(x.split("\n"), y.split("\n")):
                    if lx != ly:
                        dl = "%s: %r  vs  %s: %r" % (bname(ref), lx[:160], bname(b), ly[:160])
                        break
                viols.append({"key": "transcript.differs|%s/%s" % (section, head), "detail": "builds %s and %s disagree in script %s: %s" % (bname(ref), bname(b), i - 1, dl),
                              "builds": [bname(ref), bname(b)], "script": i - 1, "seed": core.SEED})
        # features offered by each configuration
        for b in builds:
            if b not in outs:
                continue
            with open(os.path.join(outs[b], "FEATURES.txt")) as f:
                feat = dict(kv.split("=") for line in f.read().split("\n") if "=" in line and not line.startswith("===") for kv in line.split())
            want = "1" if b[1] else "0"
            for k in ("pop_back_val", "append", "swap2", "steal_vector", "fs_data", "fs_capacity", "fs_index"):
                if feat.get(k) != want:
                    viols.append({"key": "feature.extras_visibility|%s" % k, "detail": "build %s: extra '%s' accessible=%s, expected %s" % (bname(b), k, feat.get(k), want)})
            ws = "1" if b[0] in ("c++17", "c++20") else "0"
            if feat.get("smallset") != ws:
                viols.append({"key": "feature.smallset_macro", "detail": "build %s: AMC_SMALLSET defined=%s, expected %s" % (bname(b), feat.get("smallset"), ws)})
        # SmallSet must be absent (not compile) before C++17
        for std in ("c++11", "c++14"):
            try:
                core.build_one("smallset_probe_" + std, PROBE_SRC, std=std, san="none")
                viols.append({"key": "feature.smallset_before_cxx17|%s" % std, "detail": "amc/smallset.hpp compiles and links at -std=%s" % std})
            except core.BuildError:
                pass
        try:
            core.build_one("smallset_probe_c++17", PROBE_SRC, std="c++17", san="none")
        except core.BuildError as e:
            inconc.append({"why": "SmallSet probe does not build at c++17: %s" % str(e)[-300:]})
        cov = {
            "evaluations": nscripts * len(outs), "distinct_nontrivial": sum(1 for b in outs for s in ("STD", "STD17", "EXTRAS", "SMALLSET", "THROW") if offers(b, s)) * min(nscripts, 8),
            "programs": nscripts, "builds": [bname(b) for b in builds], "builds_run": len(outs), "disagreements_checked": compared,
            "samples": sample or ["(no transcript)"],
            "rule": ("%d generated scripts (fixed seeds derived from VERIF_SEED, 60 operations each, 8 container kinds in the standard section, 4 in the extras section, "
                     "3 SmallSet kinds, FlatSet node scripts, 3 vector kinds with an element whose k-th copy throws) are run by every build of the matrix {c++11,14,17,20} x {extras, pedantic} x {assert, NDEBUG} x {-O0,-O2} "
                     "(%d builds in this tier, all under UBSan, the C++11/14 ones also under ASan/LSan); each section's transcript is compared byte for byte across all builds that offer it; feature probes "
                     "(detection idiom) and compile-must-fail probes decide absence. distinct = (build, section, script kind)" % (nscripts, len(builds))),
        }
        return cov, viols, inconc
    finally:
        shutil.rmtree(work, ignore_errors=True)
