"""Vector history engine driver (C01 C02 C05 C06 C07, random parts of C13, C14 relocation mode)."""
import concurrent.futures as cf
import time

from . import core

ELEMS = {"TC32A": "vf::TC32A", "TRBIG": "vf::TR_BIG", "NTRBIG": "vf::NTR_BIG", "NTRNCC": "vf::NTR_NCC", "TRNCA": "vf::TR_NCA", "NTRNCA": "vf::NTR_NCA", "TRNCC": "vf::TR_NCC", "TC16A": "vf::TC16A", "K1": "vf::K1", "K2": "vf::K2", "int": "int", "double": "double", "NTRTM": "vf::NTR_TM", "TC1": "vf::TC1", "TC4": "vf::TC4", "TC8": "vf::TC8", "TC12": "vf::TC12", "TR": "vf::TR", "NTR": "vf::NTR"}


def alloc_expr(kind, elem):
    return {
        "amc": "amc::allocator<%s>" % elem,
        "std": "std::allocator<%s>" % elem,
        "basic": "amc::BasicAllocatorWrapper<%s, vf::LedgerBasic>" % elem,
        "exact": "vf::ExactAlloc<%s>" % elem,
        "exact2": "vf::ExactAlloc<%s, vf::FAM_EXACT2>" % elem,
        "realloc": "vf::ReallocAlloc<%s>" % elem,
    }[kind]


def vec_expr(flav, n, elem, alloc, st):
    if flav == "v":
        return "amc::vector<%s, %s, %s>" % (elem, alloc, st)
    if flav == "s":
        return "amc::SmallVector<%s, %d, %s, %s>" % (elem, n, alloc, st)
    if flav == "f":
        return "amc::FixedCapacityVector<%s, %d>" % (elem, n)
    if flav == "fu":  # the growing policy SmallSet uses for its inline container: no capacity check (the generators stay within N)
        return "amc::FixedCapacityVector<%s, %d, amc::vec::UncheckedGrowingPolicy>" % (elem, n)
    raise ValueError(flav)


class VCfg:
    def __init__(self, flav, n, elem, alloc, st, partner, std="c++17", compiler="g++"):
        self.flav, self.n, self.elem, self.alloc, self.st, self.partner, self.std, self.compiler = flav, n, elem, alloc, st, partner, std, compiler
        self.name = "%s%d_%s_%s_%s_p%s_%s_%s" % (flav, n, elem, alloc, st.replace("_t", ""), partner, std.replace("c++", "cxx"), "gcc" if compiler == "g++" else "clang")

    def source(self):
        e = ELEMS[self.elem]
        fixed = self.flav in ("f", "fu")
        a = alloc_expr(self.alloc, e) if not fixed else "amc::vec::EmptyAlloc"
        v = vec_expr(self.flav, self.n, e, a, self.st)
        pa = a if not fixed else alloc_expr("basic", e)
        pst = self.st if not fixed else "uint32_t"
        p = self.partner
        if p == "v":
            v2 = vec_expr("v", 0, e, pa, pst)
        elif p == "v8":
            v2 = vec_expr("v", 0, e, pa, "uint8_t")
        elif p == "v64":
            v2 = vec_expr("v", 0, e, pa, "uint64_t")
        elif p.startswith("sx"):
            v2 = vec_expr("s", int(p[2:]), e, alloc_expr("exact2", e), pst)
        elif p.startswith("s8_"):
            v2 = vec_expr("s", int(p[3:]), e, pa, "uint8_t")
        elif p.startswith("si8_"):
            v2 = vec_expr("s", int(p[4:]), e, pa, "int8_t")
        elif p.startswith("s"):
            v2 = vec_expr("s", int(p[1:]), e, pa, pst)
        elif p.startswith("f"):
            v2 = vec_expr("f", int(p[1:]), e, None, None)
        else:
            raise ValueError(p)
        return ('#define VF_CFG_NAME "%s"\n#include "vec_common.hpp"\nusing Elem = %s;\nusing Vec = %s;\nusing Vec2 = %s;\n'
                '#include "vec_history_main.hpp"\n') % (self.name, e, v, v2)

    def spec(self):
        return {"name": "vh_" + self.name, "source": self.source(), "std": self.std, "compiler": self.compiler,
                "extra": ["-DAMC_NONSTD_FEATURES"]}

    @property
    def tracked(self):
        return self.elem in ("TR", "NTR", "NTRTM")

    @property
    def instr_alloc(self):
        return self.flav not in ("f", "fu") and self.alloc in ("basic", "exact", "realloc")

    @property
    def inline_type(self):
        return self.flav in ("s", "f", "fu")


QUICK = [
    VCfg("v", 0, "NTR", "basic", "uint32_t", "s3"),
    VCfg("v", 0, "TR", "realloc", "uint32_t", "f8"),
    VCfg("v", 0, "TC4", "amc", "uint8_t", "v"),
    VCfg("v", 0, "TC12", "std", "int16_t", "s2"),
    VCfg("v", 0, "TR", "basic", "uint64_t", "s8_4"),
    VCfg("v", 0, "NTR", "exact", "int8_t", "sx3"),
    VCfg("s", 1, "NTR", "basic", "uint32_t", "v"),
    VCfg("s", 1, "NTR", "realloc", "uint16_t", "s3"),  # non relocatable element + allocator offering reallocate: it must never be used
    VCfg("s", 2, "TR", "exact", "uint32_t", "v"),
    VCfg("s", 2, "TC4", "basic", "uint8_t", "f3"),
    VCfg("s", 3, "NTR", "exact", "uint32_t", "sx3"),
    VCfg("s", 3, "TC1", "amc", "uint32_t", "v"),
    VCfg("s", 4, "TR", "basic", "uint32_t", "v"),
    VCfg("s", 4, "NTR", "basic", "uint8_t", "s6"),
    VCfg("s", 4, "TC12", "std", "uint64_t", "f8"),
    VCfg("s", 4, "TR", "realloc", "int8_t", "v64"),
    VCfg("s", 8, "NTR", "std", "int16_t", "v"),
    VCfg("s", 8, "TR", "amc", "uint32_t", "s4"),
    VCfg("s", 8, "TC1", "realloc", "uint8_t", "v"),
    VCfg("f", 1, "NTR", "none", "uint8_t", "v"),
    VCfg("f", 4, "TR", "none", "uint8_t", "s3"),
    VCfg("f", 4, "TC4", "none", "uint8_t", "f8"),
    VCfg("f", 16, "NTR", "none", "uint8_t", "f3"),
    VCfg("f", 16, "TC12", "none", "uint8_t", "v8"),
    # element whose move operations are not noexcept (the noexcept(false) variants of every helper), partner with a narrower size_type
    VCfg("v", 0, "NTRTM", "basic", "uint32_t", "s8_4"),
    VCfg("s", 4, "NTRTM", "basic", "uint32_t", "v"),  # .. with inline storage: the inline-storage promise does not depend on the nothrow-ness of the moves
    # elements larger than a cache line (96 bytes): thresholds on sizeof(T)
    VCfg("s", 3, "NTRBIG", "basic", "uint8_t", "v"),
    VCfg("v", 0, "TRBIG", "realloc", "uint32_t", "s3"),
    # large inline capacities: the large-scale histories swap / move / shift thousands of elements held inside the object
    VCfg("f", 1500, "TC4", "none", "uint16_t", "s3"),
    VCfg("s", 400, "TR", "basic", "uint32_t", "v"),
    # same width, other signedness of the size types of the two swap2 operands
    VCfg("v", 0, "TR", "basic", "uint8_t", "si8_4"),
    # raw arithmetic elements (std::is_arithmetic / is_trivial special cases; +0.0 / -0.0 / NaN values)
    VCfg("s", 4, "double", "amc", "uint32_t", "v"),
    VCfg("v", 0, "int", "realloc", "uint16_t", "s3"),
    # C++20: operator<=>, erase / erase_if
    VCfg("s", 3, "NTR", "basic", "uint32_t", "v", std="c++20"),
    # FixedCapacityVector with the unchecked growing policy (what SmallSet builds on)
    VCfg("fu", 4, "NTR", "none", "uint8_t", "s3"),
    VCfg("fu", 8, "TR", "none", "uint8_t", "f3"),  # unchecked against a smaller FixedCapacityVector with the throwing policy (swap2 must honour the latter)
    # C++14: the containers run on the pre-C++17 emulations of the memory algorithms (amc/memory.hpp) under the full set of monitors
    VCfg("s", 3, "TC4", "amc", "uint32_t", "v", std="c++14"),
    VCfg("v", 0, "NTR", "basic", "uint16_t", "s3", std="c++14"),
    # over-aligned element (16 bytes / alignas 16) next to an 8-bit size_type: placement of the inline slots (UBSan alignment check)
    VCfg("s", 3, "TC16A", "basic", "uint8_t", "f3"),
    # alignment beyond malloc's (32): containers that keep their elements inside the object only
    VCfg("f", 4, "TC32A", "none", "uint8_t", "f3"),
]

THOROUGH_EXTRA = [
    VCfg("v", 0, "TC1", "realloc", "uint16_t", "f3"),
    VCfg("v", 0, "TC8", "basic", "uint32_t", "sx3"),
    VCfg("v", 0, "NTR", "std", "uint32_t", "v8"),
    VCfg("v", 0, "TR", "amc", "int16_t", "s3"),
    VCfg("v", 0, "TR", "exact", "uint8_t", "v64"),
    VCfg("s", 1, "TR", "amc", "uint8_t", "f3"),
    VCfg("s", 1, "TC1", "basic", "uint64_t", "v"),
    VCfg("s", 2, "NTR", "std", "uint8_t", "s3"),
    VCfg("s", 2, "TC12", "realloc", "int16_t", "v"),
    VCfg("s", 3, "TR", "realloc", "uint16_t", "f8"),
    VCfg("s", 3, "TC8", "exact", "int8_t", "v"),
    VCfg("s", 4, "TC4", "amc", "uint32_t", "sx3"),
    VCfg("s", 4, "NTR", "realloc", "uint64_t", "v8"),
    VCfg("s", 4, "TC8", "basic", "uint32_t", "s8_4"),
    VCfg("s", 8, "TC4", "exact", "uint64_t", "f8"),
    VCfg("s", 8, "NTR", "basic", "uint32_t", "sx3"),
    VCfg("s", 8, "TR", "basic", "uint8_t", "s8_4"),
    VCfg("s", 16, "TC1", "basic", "uint32_t", "v"),
    VCfg("s", 16, "TR", "exact", "uint32_t", "s4"),
    VCfg("f", 2, "TR", "none", "uint8_t", "v"),
    VCfg("f", 3, "NTR", "none", "uint8_t", "sx3"),
    VCfg("f", 8, "TC1", "none", "uint8_t", "s4"),
    VCfg("f", 16, "TR", "none", "uint8_t", "f8"),
    VCfg("f", 5, "TC16A", "none", "uint8_t", "s3"),
    VCfg("v", 0, "TC16A", "amc", "uint16_t", "s8_4"),
    # other language levels and the second compiler
    VCfg("s", 4, "NTR", "basic", "uint32_t", "v", std="c++20"),
    VCfg("s", 3, "TR", "realloc", "uint32_t", "v", std="c++20"),
    VCfg("v", 0, "NTR", "exact", "uint32_t", "s3", std="c++20"),
    VCfg("f", 4, "NTR", "none", "uint8_t", "v", std="c++20"),
    VCfg("f", 4, "TR", "none", "uint8_t", "s3", std="c++14"),
    VCfg("s", 2, "TC12", "realloc", "uint8_t", "f3", std="c++14"),
    VCfg("v", 0, "int", "amc", "uint32_t", "s3", std="c++14"),
    VCfg("s", 4, "double", "std", "uint32_t", "v", std="c++14"),
    VCfg("s", 4, "NTR", "basic", "uint32_t", "v", compiler="clang++-14"),
    VCfg("s", 2, "TR", "realloc", "uint8_t", "f3", compiler="clang++-14"),
    VCfg("v", 0, "TC4", "basic", "uint32_t", "s3", compiler="clang++-14"),
    VCfg("f", 4, "TR", "none", "uint8_t", "s3", compiler="clang++-14"),
    VCfg("s", 8, "NTR", "exact", "uint32_t", "sx3", compiler="clang++-14"),
]


# configurations of the coverage-guided stage (lib/fuzz.py; always clang++-14 + libFuzzer)
FUZZ_CFGS = [
    VCfg("s", 4, "NTR", "basic", "uint32_t", "v", compiler="clang++-14"),
    VCfg("s", 3, "TR", "realloc", "uint8_t", "f3", compiler="clang++-14"),
    VCfg("v", 0, "NTR", "exact", "int8_t", "sx3", compiler="clang++-14"),
    VCfg("v", 0, "TR", "basic", "uint64_t", "s8_4", compiler="clang++-14"),
    VCfg("s", 2, "TC4", "basic", "uint8_t", "f3", compiler="clang++-14"),
    VCfg("s", 8, "NTR", "std", "int16_t", "v", compiler="clang++-14"),
    VCfg("f", 4, "TR", "none", "uint8_t", "s3", compiler="clang++-14"),
    VCfg("f", 16, "NTR", "none", "uint8_t", "f3", compiler="clang++-14"),
    VCfg("s", 1, "NTR", "realloc", "uint16_t", "s3", compiler="clang++-14"),
    VCfg("s", 4, "double", "amc", "uint32_t", "v", compiler="clang++-14"),
    VCfg("v", 0, "int", "realloc", "uint16_t", "s3", compiler="clang++-14"),
    VCfg("v", 0, "NTRTM", "basic", "uint32_t", "s8_4", compiler="clang++-14"),
    VCfg("s", 4, "TC12", "std", "uint64_t", "f8", compiler="clang++-14"),
    VCfg("s", 3, "NTR", "basic", "uint32_t", "v", std="c++20", compiler="clang++-14"),
    VCfg("v", 0, "TC4", "amc", "uint8_t", "v", compiler="clang++-14"),
    VCfg("s", 8, "TR", "amc", "uint32_t", "s4", compiler="clang++-14"),
    VCfg("s", 3, "TC4", "amc", "uint32_t", "v", std="c++14", compiler="clang++-14"),
    VCfg("v", 0, "NTR", "basic", "uint16_t", "s3", std="c++14", compiler="clang++-14"),
]
FUZZ_QUICK = [FUZZ_CFGS[0], FUZZ_CFGS[1], FUZZ_CFGS[2], FUZZ_CFGS[6]]


def select(prop, tier):
    cfgs = list(QUICK)
    if tier == "thorough":
        cfgs += THOROUGH_EXTRA
    if prop == "C05":
        cfgs = [c for c in cfgs if c.inline_type]
    if prop == "C14":
        cfgs = [c for c in cfgs if c.elem != "NTR" or c.flav == "v"]
    return cfgs


CRASH_OWNERS = {"C01", "C02"}
SIG_OWNER = {"C10": "alias:", "C13": "swap2"}
TRIVIAL_OPS = {"ctor()", "alias-skip", "destroy", "~dtor", "RELOCATE"}


def run(prop, tier, extra_args=(), hist_quick=240, hist_thorough=2400, ops=80, crash_owner_fn=None, any_prop=False):
    """Runs the history engine for all selected configurations. Returns (coverage, violations, inconclusive)."""
    cfgs = select(prop, tier)
    bins = core.build_many([c.spec() for c in cfgs])
    nh = hist_quick if tier == "quick" else hist_thorough
    k = max(1, round(2.0 * core.NCPU / len(cfgs)))
    chunk = max(10, -(-nh // k))
    jobs = []
    for c in cfgs:
        lo = 0
        while lo < nh:
            hi = min(nh, lo + chunk)
            jobs.append((c, lo, hi))
            lo = hi
    results = []
    with cf.ThreadPoolExecutor(max_workers=core.NCPU) as ex:
        futs = [ex.submit(core.run_history_range, bins["vh_" + c.name], c.name, core.SEED, lo, hi, ["--ops", str(ops)] + list(extra_args),
                          240 if tier == "quick" else 1200, 8) for (c, lo, hi) in jobs]
        for f in futs:
            results.append(f.result())
    return aggregate(prop, results, extra_args, crash_owner_fn, any_prop)


def aggregate(prop, results, extra_args=(), crash_owner_fn=None, any_prop=False):
    cells = set()
    cellcount = 0
    hist = calls = 0
    stats = {}
    viols = []
    foreign = 0
    inconc = []
    samples = []
    for r in results:
        for s in r["summaries"]:
            hist += s.get("histories", 0)
            calls += s.get("calls", 0)
            for k in ("entitled_calls", "unentitled_alloc_calls", "handovers", "nonrealloc_checks", "relocations", "cap_decreases_legit",
                      "alloc", "dealloc", "realloc", "hook_alive"):
                stats[k] = stats.get(k, 0) + s.get(k, 0)
            stats["blk_peak"] = max(stats.get("blk_peak", 0), s.get("blk_peak", 0))
            for k, v in s.get("counters", {}).items():
                stats[k] = max(stats.get(k, 0), v) if k.startswith("max_") or k.startswith("states") or k in ("total_edges", "masks_total") else stats.get(k, 0) + v
            ev = s.get("ev", [0] * 7)
            for i, n in enumerate(("value_ctor", "default_ctor", "copy_ctor", "move_ctor", "copy_assign", "move_assign", "dtor")):
                stats["ev_" + n] = stats.get("ev_" + n, 0) + ev[i]
            for c, n in s.get("cells", {}).items():
                if c.split("/")[0] in TRIVIAL_OPS:
                    continue
                cells.add((r["cfg"], c))
                cellcount += n
            if len(samples) < 3 and s.get("samples"):
                samples.append({"cfg": r["cfg"], "history": s["samples"][0][:1500]})
        for v in r["viols"]:
            props = v.get("props", "").split(",")
            # a violation of any monitor during an aliased call / a swap2 call also belongs to the property about those calls
            if SIG_OWNER.get(prop) and (v.get("sig") or "").startswith(SIG_OWNER[prop]):
                props.append(prop)
            if prop in props or any_prop:
                viols.append({"key": core.viol_key(v), "detail": v.get("detail"), "cfg": v["cfg"], "seed": v["seed"], "hist": v.get("hist"),
                              "op": v.get("op"), "desc": v.get("desc"), "monitor": v.get("mon"), "sig": v.get("sig"), "args": list(extra_args)})
            else:
                foreign += 1
                if core.os.environ.get("VERIF_DEBUG"):
                    core.log("FOREIGN", v.get("props"), core.viol_key(v), v["cfg"], v.get("hist"), v.get("detail"))
        for c in r["crashes"]:
            owners = set(CRASH_OWNERS)
            if crash_owner_fn:
                owners |= crash_owner_fn(c)
            for pp, pref in SIG_OWNER.items():
                if (c.get("sig") or "").startswith(pref):
                    owners.add(pp)
            if prop in owners or any_prop:
                viols.append({"key": "crash:%s|%s" % (c["what"], c["sig"]), "detail": c["what"] + " during " + c.get("desc", ""), "cfg": c["cfg"],
                              "seed": c["seed"], "hist": c.get("hist"), "op": c.get("op"), "sig": c.get("sig"), "stderr_tail": c.get("stderr", "")[-1500:],
                              "args": list(extra_args)})
            else:
                foreign += 1
        inconc += r["inconclusive"]
        if r.get("budget_exhausted"):
            stats["configs_stopped_after_many_events"] = stats.get("configs_stopped_after_many_events", 0) + 1
    opstates = set()
    for (_, c) in cells:
        parts = c.split("/")
        if len(parts) >= 2:
            opstates.add(parts[0] + "/" + parts[1])
    cov = {
        "evaluations": calls,
        "distinct_nontrivial": len(cells),
        "_opstates": opstates,
        "histories_completed": hist,
        "monitored_calls_in_nontrivial_cells": cellcount,
        "histories_cut_short_by_other_properties_monitors": foreign,
        "configurations": sorted(set(r["cfg"] for r in results)),
        "samples": samples or ["(no history completed)"],
        "observed": stats,
    }
    return cov, viols, inconc


class GrowthCfg(VCfg):
    def __init__(self, flav, n, elem, alloc, st, std="c++17", compiler="g++"):
        VCfg.__init__(self, flav, n, elem, alloc, st, "v", std, compiler)
        self.name = "gr_" + self.name

    def source(self):
        e = ELEMS[self.elem]
        a = alloc_expr(self.alloc, e)
        v = vec_expr(self.flav, self.n, e, a, self.st)
        return '#define VF_CFG_NAME "%s"\n#include "vec_common.hpp"\nusing Elem = %s;\nusing Vec = %s;\n#include "vec_growth_main.hpp"\n' % (self.name, e, v)

    def spec(self):
        return {"name": self.name, "source": self.source(), "std": self.std, "compiler": self.compiler, "extra": ["-DAMC_NONSTD_FEATURES"]}


GROWTH_QUICK = [
    GrowthCfg("v", 0, "NTR", "basic", "uint32_t"),
    GrowthCfg("v", 0, "TR", "realloc", "uint16_t"),
    GrowthCfg("v", 0, "TC4", "amc", "uint8_t"),
    GrowthCfg("s", 1, "TR", "basic", "uint32_t"),
    GrowthCfg("s", 4, "NTR", "exact", "uint32_t"),
    GrowthCfg("s", 4, "TC4", "realloc", "uint8_t"),
    GrowthCfg("s", 8, "TC12", "std", "uint64_t"),
    GrowthCfg("s", 8, "NTR", "basic", "int16_t"),
]
GROWTH_THOROUGH = [
    GrowthCfg("v", 0, "NTR", "exact", "int8_t"),
    GrowthCfg("v", 0, "TC1", "basic", "uint64_t"),
    GrowthCfg("s", 2, "TR", "amc", "uint16_t"),
    GrowthCfg("s", 16, "TC8", "basic", "uint32_t"),
    GrowthCfg("s", 4, "NTR", "basic", "uint32_t", compiler="clang++-14"),
    GrowthCfg("v", 0, "TR", "realloc", "uint32_t", std="c++20"),
    GrowthCfg("s", 4, "NTR", "exact", "uint32_t", std="c++14"),
]


class OneVecCfg(VCfg):
    """one vector type + an engine header"""

    def __init__(self, prefix, header, flav, n, elem, alloc, st, std="c++17", compiler="g++", extra_defs=""):
        VCfg.__init__(self, flav, n, elem, alloc, st, "v", std, compiler)
        self.name = prefix + "_" + self.name
        self.header = header
        self.extra_defs = extra_defs

    def source(self):
        e = ELEMS[self.elem]
        a = alloc_expr(self.alloc, e) if self.flav != "f" else None
        v = vec_expr(self.flav, self.n, e, a, self.st)
        return '#define VF_CFG_NAME "%s"\n%s#include "vec_common.hpp"\nusing Elem = %s;\nusing Vec = %s;\n#include "%s"\n' % (self.name, self.extra_defs, e, v, self.header)

    def spec(self):
        return {"name": self.name, "source": self.source(), "std": self.std, "compiler": self.compiler, "extra": ["-DAMC_NONSTD_FEATURES"]}


def alias_cfg(*a, **k):
    return OneVecCfg("al", "vec_alias_main.hpp", *a, **k)


ALIAS_QUICK = [
    alias_cfg("v", 0, "NTR", "basic", "uint32_t"),
    alias_cfg("v", 0, "TR", "realloc", "uint32_t"),
    alias_cfg("v", 0, "TC4", "amc", "uint8_t"),
    alias_cfg("s", 3, "NTR", "exact", "uint32_t"),
    alias_cfg("s", 8, "TR", "basic", "uint32_t"),
    alias_cfg("s", 4, "TC12", "realloc", "uint16_t"),
    alias_cfg("f", 8, "NTR", "none", "uint8_t"),
    alias_cfg("f", 8, "TR", "none", "uint8_t"),
    alias_cfg("s", 3, "NTR", "basic", "uint8_t"),
    alias_cfg("v", 0, "TR", "realloc", "uint16_t"),
    alias_cfg("s", 3, "NTR", "exact", "uint32_t", std="c++14"),
]
ALIAS_THOROUGH = [
    alias_cfg("v", 0, "NTR", "std", "int16_t"),
    alias_cfg("s", 1, "NTR", "basic", "uint32_t"),
    alias_cfg("s", 2, "TR", "realloc", "uint8_t"),
    alias_cfg("s", 16, "NTR", "basic", "uint32_t"),
    alias_cfg("s", 16, "TC8", "amc", "uint64_t"),
    alias_cfg("f", 16, "TC4", "none", "uint8_t"),
    alias_cfg("f", 16, "NTR", "none", "uint8_t"),
    alias_cfg("s", 4, "NTR", "basic", "uint32_t", compiler="clang++-14"),
    alias_cfg("v", 0, "TR", "realloc", "uint32_t", std="c++20"),
    alias_cfg("s", 4, "NTR", "exact", "uint32_t", std="c++20"),
    alias_cfg("v", 0, "TC4", "amc", "uint8_t", std="c++14"),
    alias_cfg("f", 8, "TR", "none", "uint8_t", std="c++14"),
]


def lim_cfg(*a, **k):
    return OneVecCfg("lim", "vec_limits_main.hpp", *a, **k)


LIMITS_QUICK = [
    lim_cfg("f", 1, "NTR", "none", "uint8_t"),
    lim_cfg("f", 2, "TR", "none", "uint8_t"),
    lim_cfg("f", 3, "TC4", "none", "uint8_t"),
    lim_cfg("f", 5, "NTR", "none", "uint8_t"),
    lim_cfg("f", 255, "TR", "none", "uint8_t"),
    lim_cfg("v", 0, "NTR", "basic", "uint8_t"),
    lim_cfg("v", 0, "TR", "realloc", "int8_t"),
    lim_cfg("s", 2, "TC4", "amc", "uint8_t"),
    lim_cfg("s", 32, "NTR", "exact", "int8_t"),
    lim_cfg("s", 2, "TR", "basic", "uint8_t"),
    # default 32-bit size_type: size()+count overflowing the size_type (only the exceeding side is executable)
    lim_cfg("v", 0, "TR", "basic", "uint32_t"),
    lim_cfg("s", 4, "NTR", "exact", "uint32_t"),
    lim_cfg("s", 3, "TC4", "amc", "int32_t"),
    lim_cfg("s", 2, "TR", "basic", "uint8_t", std="c++14"),
]
LIMITS_THOROUGH = [
    lim_cfg("f", 4, "TR", "none", "uint8_t"),
    lim_cfg("f", 255, "NTR", "none", "uint8_t"),
    lim_cfg("f", 256, "TC4", "none", "uint16_t"),
    lim_cfg("v", 0, "TC4", "basic", "uint16_t"),
    lim_cfg("s", 32, "TC1", "realloc", "uint8_t"),
    lim_cfg("s", 4, "TC4", "amc", "int16_t"),
    lim_cfg("v", 0, "TC12", "std", "uint8_t"),
    lim_cfg("s", 2, "NTR", "basic", "uint8_t", compiler="clang++-14"),
    lim_cfg("f", 3, "NTR", "none", "uint8_t", std="c++20"),
    lim_cfg("v", 0, "NTR", "exact", "uint8_t", std="c++20"),
    lim_cfg("f", 3, "NTR", "none", "uint8_t", std="c++14"),
    lim_cfg("v", 0, "TC4", "amc", "uint8_t", std="c++14"),
]


def fault_cfg(*a, **k):
    return OneVecCfg("flt", "vec_fault_main.hpp", *a, **k)


FAULT_QUICK = [
    fault_cfg("v", 0, "NTR", "basic", "uint32_t"),
    fault_cfg("v", 0, "TR", "realloc", "uint32_t"),
    fault_cfg("s", 3, "NTR", "exact", "uint32_t"),
    fault_cfg("s", 4, "TR", "basic", "uint8_t"),
    fault_cfg("s", 8, "NTR", "basic", "uint32_t"),
    fault_cfg("f", 8, "NTR", "none", "uint8_t"),
    fault_cfg("f", 8, "TR", "none", "uint8_t"),
    # amc::allocator with a 64-bit size_type: real malloc/realloc failures (impossible capacities; operator new of std::allocator aborts under ASan instead)
    fault_cfg("v", 0, "TR", "amc", "uint64_t"),
    fault_cfg("s", 4, "TC8", "amc", "uint64_t"),
    fault_cfg("s", 3, "NTR", "amc", "uint64_t"),
    # C++14: clean-up on throw of the pre-C++17 emulations of the memory algorithms as the containers use them
    fault_cfg("s", 4, "NTR", "basic", "uint32_t", std="c++14"),
    fault_cfg("v", 0, "TR", "realloc", "uint32_t", std="c++14"),
    fault_cfg("s", 4, "NTR", "exact", "uint32_t", std="c++20"),  # C++20: concepts-based dispatch (iterator categories of move iterators and views differ)
    # asymmetric copies: only one of copy construction / copy assignment may throw (code deciding from the nothrow-ness of one about the other)
    fault_cfg("v", 0, "NTRNCC", "basic", "uint32_t"),
    fault_cfg("s", 4, "TRNCA", "basic", "uint32_t"),
    fault_cfg("f", 8, "NTRNCA", "none", "uint8_t"),
    fault_cfg("s", 3, "TRNCC", "exact", "uint32_t"),
]
FAULT_THOROUGH = [
    fault_cfg("v", 0, "NTR", "exact", "int16_t"),
    fault_cfg("v", 0, "TR", "basic", "uint64_t"),
    fault_cfg("s", 1, "NTR", "basic", "uint32_t"),
    fault_cfg("s", 2, "TR", "exact", "uint32_t"),
    fault_cfg("s", 6, "TR", "realloc", "uint16_t"),
    fault_cfg("f", 16, "NTR", "none", "uint8_t"),
    fault_cfg("s", 4, "NTR", "basic", "uint32_t", compiler="clang++-14"),
    fault_cfg("v", 0, "NTR", "basic", "uint32_t", std="c++20"),
    fault_cfg("s", 4, "TR", "basic", "uint32_t", std="c++20"),
    fault_cfg("f", 8, "NTR", "none", "uint8_t", std="c++14"),
    fault_cfg("s", 3, "NTR", "exact", "uint32_t", std="c++14"),
]


class PairCfg:
    """two vector types for the swap2 grid; spec strings: 'v:alloc:st', 's<N>:alloc:st', 'f<N>'"""

    def __init__(self, elem, a, b, std="c++17", compiler="g++"):
        self.elem, self.a, self.b, self.std, self.compiler = elem, a, b, std, compiler
        self.name = "sw_%s_%s__%s_%s_%s" % (elem, a.replace(":", "-"), b.replace(":", "-"), std.replace("c++", "cxx"), "gcc" if compiler == "g++" else "clang")

    def texpr(self, t):
        e = ELEMS[self.elem]
        parts = t.split(":")
        if parts[0].startswith("fu"):
            return vec_expr("fu", int(parts[0][2:]), e, None, None)
        if parts[0].startswith("f"):
            return vec_expr("f", int(parts[0][1:]), e, None, None)
        a = alloc_expr(parts[1], e)
        if parts[0] == "v":
            return vec_expr("v", 0, e, a, parts[2])
        return vec_expr("s", int(parts[0][1:]), e, a, parts[2])

    def source(self):
        return ('#define VF_CFG_NAME "%s"\n#include "vec_common.hpp"\nusing Elem = %s;\nusing VecA = %s;\nusing VecB = %s;\n#include "swap2_grid_main.hpp"\n'
                % (self.name, ELEMS[self.elem], self.texpr(self.a), self.texpr(self.b)))

    def spec(self):
        return {"name": self.name, "source": self.source(), "std": self.std, "compiler": self.compiler, "extra": ["-DAMC_NONSTD_FEATURES"]}


V32, V8, S2, S4, S4U8, S3X, F3, F8 = ("v:basic:uint32_t", "v:basic:uint8_t", "s2:basic:uint32_t", "s4:basic:uint32_t", "s4:basic:uint8_t", "s3:exact2:uint32_t", "f3", "f8")
SWAP2_QUICK = [
    PairCfg("NTR", V32, S4), PairCfg("TR", V32, V8), PairCfg("NTR", S2, S4), PairCfg("TR", S4, S4U8), PairCfg("NTR", S4, S3X), PairCfg("TR", S4, F3),
    PairCfg("NTR", F3, F8), PairCfg("TC4", V8, F8), PairCfg("TR", S2, V8), PairCfg("NTR", S4U8, F8), PairCfg("TC4", V32, S3X), PairCfg("TR", S4, S4),
    # same width, other signedness; a fixed capacity beyond an 8-bit size_type
    PairCfg("TR", V8, "v:basic:int8_t"), PairCfg("TC4", "f300", V8), PairCfg("NTR", "s4:basic:int8_t", S4U8),
    PairCfg("NTR", "fu8", F3), PairCfg("TR", "fu4", S4),  # operands with different growing policies
    PairCfg("TRBIG", V32, V8), PairCfg("NTRBIG", S4, S4U8),  # elements larger than a cache line (96 bytes)
]
SWAP2_THOROUGH = [
    PairCfg("TR", V32, S4), PairCfg("NTR", V32, V8), PairCfg("TR", S2, S4), PairCfg("NTR", S4, S4U8), PairCfg("TR", S4, S3X), PairCfg("NTR", S4, F3),
    PairCfg("TR", F3, F8), PairCfg("NTR", V8, F8), PairCfg("NTR", S2, V8), PairCfg("TR", S4U8, F8), PairCfg("NTR", V32, S3X), PairCfg("NTR", S4, S4),
    PairCfg("TC4", S4, "s8:realloc:int16_t"), PairCfg("TR", "s1:realloc:uint16_t", "v:realloc:uint64_t"), PairCfg("NTR", "s8:amc:uint32_t", "v:amc:uint32_t"),
    PairCfg("NTR", V32, V32), PairCfg("TR", "s3:exact:int8_t", "s5:exact:uint32_t"), PairCfg("TC12", "s2:std:uint32_t", "f8"),
    PairCfg("NTR", V32, S4, compiler="clang++-14"), PairCfg("TR", S4, S4U8, std="c++20"), PairCfg("NTR", S2, F3, std="c++20"),
    PairCfg("NTR", S2, S4, std="c++14"), PairCfg("TC4", V8, F8, std="c++14"),
]
